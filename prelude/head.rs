#![feature(allocator_api)]
#![feature(sized_hierarchy)]
#![allow(unused_imports, unused_variables, dead_code, unused_mut, non_snake_case, unused_parens, unused_braces)]
use vstd::prelude::*;
use std::collections::{HashMap, HashSet, VecDeque};
use std::hash::Hash;
use vstd::std_specs::hash::*;
use vstd::std_specs::iter::IteratorSpec;
verus! {
global layout usize is size == 8;
