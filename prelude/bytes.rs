// ---------------------------------------------------------------------------------------------
// TRUSTED: byte-level std functions without a vstd spec.
// ---------------------------------------------------------------------------------------------
pub assume_specification<T: Clone> [<[T]>::to_vec] (s: &[T]) -> (r: Vec<T>) ensures r@ == s@;

// big-endian bytes of a u32 (definition of `u32::to_be_bytes`)
pub open spec fn be_bytes(x: u32) -> Seq<u8> {
    seq![(x >> 24) as u8, ((x >> 16) & 0xff) as u8, ((x >> 8) & 0xff) as u8, (x & 0xff) as u8]
}
// TRUSTED helper (site rewrite): `x.to_be_bytes()`; the std return type `[u8; size_of::<u32>()]` cannot be
// named in an assume_specification
#[verifier::external_body]
pub fn u32_to_be_bytes(x: u32) -> (r: [u8; 4]) ensures r@ == be_bytes(x) { x.to_be_bytes() }

// UTF-8 bytes of a string: vstd's encode_utf8 (str::as_bytes is specified by vstd; String::as_bytes is the same
// function reached through Deref and gets the same spec here)
pub open spec fn str_bytes(s: Seq<char>) -> Seq<u8> { vstd::utf8::encode_utf8(s) }
pub proof fn lemma_str_bytes_injective(a: Seq<char>, b: Seq<char>)
    requires str_bytes(a) == str_bytes(b)
    ensures a == b
{
    vstd::utf8::encode_utf8_decode_utf8(a); vstd::utf8::encode_utf8_decode_utf8(b);
}
pub assume_specification [String::as_bytes] (s: &String) -> (r: &[u8]) ensures r@ == str_bytes(s@);

pub use core::array::TryFromSliceError;
#[verifier::external_type_specification]
#[verifier::external_body]
pub struct ExTryFromSliceError(core::array::TryFromSliceError);

// TRUSTED helper (site rewrite): `slice.try_into().unwrap()` for `[u8; N]` (TryFrom<&[T]> for [T; N] copies the
// elements when the lengths agree and fails otherwise)
#[verifier::external_body]
pub fn slice_to_array<const N: usize>(s: &[u8]) -> (r: [u8; N])
    requires s@.len() == N
    ensures r@ == s@
{ s.try_into().unwrap() }
#[verifier::external_body]
pub fn slice_try_to_array<const N: usize>(s: &[u8]) -> (r: Result<[u8; N], core::array::TryFromSliceError>)
    ensures match r { Ok(a) => s@.len() == N && a@ == s@, Err(_) => s@.len() != N }
{ s.try_into() }

pub proof fn lemma_be_bytes_injective(a: u32, b: u32)
    requires be_bytes(a) == be_bytes(b)
    ensures a == b
{
    assert(be_bytes(a)[0] == be_bytes(b)[0] && be_bytes(a)[1] == be_bytes(b)[1] && be_bytes(a)[2] == be_bytes(b)[2] && be_bytes(a)[3] == be_bytes(b)[3]);
    assert((a >> 24) as u8 == (b >> 24) as u8 && ((a >> 16) & 0xff) as u8 == ((b >> 16) & 0xff) as u8
        && ((a >> 8) & 0xff) as u8 == ((b >> 8) & 0xff) as u8 && (a & 0xff) as u8 == (b & 0xff) as u8 ==> a == b) by (bit_vector);
}

// TRUSTED helper (site rewrite): `Option<String>::clone()`
#[verifier::external_body]
pub fn clone_opt_string(o: &Option<String>) -> (r: Option<String>) ensures r == *o { o.clone() }
