// ---------------------------------------------------------------------------------------------
// TRUSTED: the bitcoind RPC client as a nondeterministic oracle with a ghost call log.
// Every `send_raw_transaction` call is recorded in `calls` (that is "what the tower submitted to the
// node"); replies are arbitrary values of the reply enum the code matches on.
// ---------------------------------------------------------------------------------------------
pub struct RpcErrorObj { pub code: i32 }
pub struct TransportErr;
pub enum JsonRpcErr { Rpc(RpcErrorObj), Transport(TransportErr), OtherJsonRpc }
pub enum BitcoindError { JsonRpc(JsonRpcErr), OtherBitcoind }
pub use BitcoindError::JsonRpc as JsonRpcError;
pub use JsonRpcErr::Rpc as RpcError;
pub use JsonRpcErr::Transport as TransportError;

pub struct GetRawTransactionResult { pub blockhash: Option<BlockHash> }

pub ghost enum SendReply { Accepted, Rpc(i32), Transport, Other }
pub open spec fn reply_of(r: Result<Txid, BitcoindError>) -> SendReply {
    match r {
        Ok(_) => SendReply::Accepted,
        Err(BitcoindError::JsonRpc(JsonRpcErr::Rpc(e))) => SendReply::Rpc(e.code),
        Err(BitcoindError::JsonRpc(JsonRpcErr::Transport(_))) => SendReply::Transport,
        Err(_) => SendReply::Other,
    }
}
pub ghost enum InfoReply { InMempool, InChain, Rpc(i32), Transport, Other }
pub open spec fn info_reply_of(r: Result<GetRawTransactionResult, BitcoindError>) -> InfoReply {
    match r {
        Ok(t) => if t.blockhash is None { InfoReply::InMempool } else { InfoReply::InChain },
        Err(BitcoindError::JsonRpc(JsonRpcErr::Rpc(e))) => InfoReply::Rpc(e.code),
        Err(BitcoindError::JsonRpc(JsonRpcErr::Transport(_))) => InfoReply::Transport,
        Err(_) => InfoReply::Other,
    }
}

pub struct BitcoindClient {
    pub ghost calls: Seq<(Transaction, SendReply)>,     // sendrawtransaction calls, oldest first
    pub ghost queries: Seq<(Txid, InfoReply)>,          // getrawtransaction calls
}
impl BitcoindClient {
    #[verifier::external_body]
    pub fn send_raw_transaction(&mut self, tx: &Transaction) -> (r: Result<Txid, BitcoindError>)
        ensures final(self).calls == old(self).calls.push((*tx, reply_of(r))), final(self).queries == old(self).queries,
    { unimplemented!() }
    #[verifier::external_body]
    pub fn get_raw_transaction_info(&mut self, txid: &Txid, block_hash: Option<&BlockHash>) -> (r: Result<GetRawTransactionResult, BitcoindError>)
        ensures final(self).queries == old(self).queries.push((*txid, info_reply_of(r))), final(self).calls == old(self).calls,
    { unimplemented!() }
}
pub struct Condvar;
