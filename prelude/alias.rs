// ---------------------------------------------------------------------------------------------
// TRUSTED (rule E16, alias synchronisation): Watcher, Responder and Gatekeeper hold the *same*
// Arc<Mutex<DBM>>.  Under the sequential projection each component owns a copy of the ghost
// database; control passes between components only at collaborator calls, so the copies are
// synchronised exactly there.  The DBM stand-in has ghost fields only: this call has no run-time
// meaning.
// ---------------------------------------------------------------------------------------------
#[verifier::external_body]
pub fn alias_sync(dst: &mut DBM, src: &DBM)
    ensures *final(dst) == *src
{ }
