// ---------------------------------------------------------------------------------------------
// TRUSTED: message signing (lightning::util::message_signing: zbase32 recoverable ECDSA over the
// Lightning message prefix) as uninterpreted functions with the standard axiom.
// ---------------------------------------------------------------------------------------------
pub uninterp spec fn recover_spec(msg: Seq<u8>, sig: Seq<char>) -> Option<PublicKey>;
pub uninterp spec fn sign_spec(msg: Seq<u8>, sk: SecretKey) -> Seq<char>;
pub uninterp spec fn pk_of(sk: SecretKey) -> PublicKey;
pub broadcast proof fn axiom_sign_recover(msg: Seq<u8>, sk: SecretKey)
    ensures #[trigger] recover_spec(msg, sign_spec(msg, sk)) == Some(pk_of(sk))
{ admit(); }
#[derive(Debug)]
pub struct Secp256k1Error;
pub mod message_signing {
    use super::*;
    #[verifier::external_body]
    pub fn recover_pk(msg: &[u8], sig: &str) -> (r: Result<PublicKey, Secp256k1Error>)
        ensures match r { Ok(pk) => recover_spec(msg@, sig@) == Some(pk), Err(_) => recover_spec(msg@, sig@) is None }
    { unimplemented!() }
    #[verifier::external_body]
    pub fn sign(msg: &[u8], sk: &SecretKey) -> (r: String)
        ensures r@ == sign_spec(msg@, *sk)
    { unimplemented!() }
}
