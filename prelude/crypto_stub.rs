// the tower/client wrappers teos_common::cryptography::{sign, verify, recover_pk}: stubs carrying the contracts the
// `wire` unit proves on the real wrappers
// decrypt: the `blob` unit proves the real function computes AEAD-open under SHA256(txid) with the zero nonce followed by
// consensus decoding; here that result is the uninterpreted dec_spec
pub uninterp spec fn dec_spec(blob: Seq<u8>, txid: Txid) -> Option<Transaction>;
pub struct DecryptingError;
pub uninterp spec fn enc_spec(tx: Transaction, txid: Txid) -> Seq<u8>;
#[derive(Debug)]
pub struct EncryptingError;
pub mod cryptography {
    use super::*;
    #[verifier::external_body]
    pub fn decrypt(encrypted_blob: &[u8], secret: &Txid) -> (res: Result<Transaction, DecryptingError>)
        ensures match res { Ok(t) => dec_spec(encrypted_blob@, *secret) == Some(t), Err(_) => dec_spec(encrypted_blob@, *secret) is None }
    { unimplemented!() }
    // TRUSTED: AEAD encryption of a transaction does not fail (the `blob` unit proves the wiring of the real function)
    #[verifier::external_body]
    pub fn encrypt(message: &Transaction, secret: &Txid) -> (r: Result<Vec<u8>, EncryptingError>)
        ensures r is Ok, r->Ok_0@ == enc_spec(*message, *secret)
    { unimplemented!() }
    #[verifier::external_body]
    pub fn get_random_keypair() -> (r: (SecretKey, PublicKey)) ensures r.1 == pk_of(r.0) { unimplemented!() }
    #[verifier::external_body]
    pub fn recover_pk(msg: &[u8], sig: &str) -> (r: Result<PublicKey, Secp256k1Error>)
        ensures match r { Ok(pk) => recover_spec(msg@, sig@) == Some(pk), Err(_) => recover_spec(msg@, sig@) is None }
    { unimplemented!() }
    #[verifier::external_body]
    pub fn sign(msg: &[u8], sk: &SecretKey) -> (r: String)
        ensures r@ == sign_spec(msg@, *sk)
    { unimplemented!() }
    #[verifier::external_body]
    pub fn verify(msg: &[u8], sig: &str, pk: &PublicKey) -> (r: bool)
        ensures r == (recover_spec(msg@, sig@) == Some(*pk))
    { unimplemented!() }
}
