// the tower/client wrappers teos_common::cryptography::{sign, verify, recover_pk}: stubs carrying the contracts the
// `wire` unit proves on the real wrappers
pub mod cryptography {
    use super::*;
    #[verifier::external_body]
    pub fn recover_pk(msg: &[u8], sig: &str) -> (r: Result<PublicKey, Secp256k1Error>)
        ensures match r { Ok(pk) => recover_spec(msg@, sig@) == Some(pk), Err(_) => recover_spec(msg@, sig@) is None }
    { unimplemented!() }
    #[verifier::external_body]
    pub fn sign(msg: &[u8], sk: &SecretKey) -> (r: String)
        ensures r@ == sign_spec(msg@, *sk)
    { unimplemented!() }
    #[verifier::external_body]
    pub fn verify(msg: &[u8], sig: &str, pk: &PublicKey) -> (r: bool)
        ensures r == (recover_spec(msg@, sig@) == Some(*pk))
    { unimplemented!() }
}
