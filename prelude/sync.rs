// ---------------------------------------------------------------------------------------------
// TRUSTED (rule E5): sequential projection of std::sync.  `Mutex<T>` is its protected value,
// `lock()` hands out exclusive access and never fails (no poisoning, no interleaving),
// `Arc<T>` is `T`, `AtomicU32` is a plain cell.  Bodies written against std::sync type-check
// unchanged against these definitions once `&self` receivers are turned into `&mut self`.
// ---------------------------------------------------------------------------------------------
#[derive(Debug)]
pub struct PoisonError;
pub struct Mutex<T> { pub inner: T }
impl<T> Mutex<T> {
    pub fn new(t: T) -> (r: Self) ensures r.inner == t { Mutex { inner: t } }
    pub fn lock(&mut self) -> (r: Result<&mut T, PoisonError>)
        ensures r is Ok, *r->Ok_0 == old(self).inner, *final(r->Ok_0) == final(self).inner,
    { Ok(&mut self.inner) }
}
pub type Arc<T> = T;
pub enum Ordering { Acquire, Release, Relaxed, SeqCst }
pub struct AtomicU32 { pub v: u32 }
impl AtomicU32 {
    pub fn new(v: u32) -> (r: Self) ensures r.v == v { AtomicU32 { v } }
    pub fn load(&self, _o: Ordering) -> (r: u32) ensures r == self.v { self.v }
    pub fn store(&mut self, v: u32, _o: Ordering) ensures final(self).v == v { self.v = v; }
}
