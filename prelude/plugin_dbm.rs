// ---------------------------------------------------------------------------------------------
// TRUSTED: the client plugin's DBM as ghost relations.  Every method is an external_body stub whose
// contract transcribes the SQL of watchtower-plugin/src/dbm.rs incl. PRIMARY KEY / FOREIGN KEY /
// ON DELETE CASCADE and the transaction boundaries.  SQLite is assumed to fail only on constraint
// violations.
// ---------------------------------------------------------------------------------------------
pub ghost struct TowerRow { pub net_addr: Seq<char>, pub available_slots: u32 }
pub ghost struct RegRow { pub available_slots: u32, pub subscription_start: u32, pub signature: Option<Seq<char>> }
pub ghost struct ReceiptRow { pub start_block: u32, pub user_signature: Seq<char>, pub tower_signature: Option<Seq<char>> }
pub ghost struct BodyRow { pub blob: Seq<u8>, pub to_self_delay: u32 }
pub ghost struct ProofRow { pub locator: Locator, pub recovered_id: TowerId }
pub struct SqliteError;
pub struct PathBuf;
impl PathBuf { #[verifier::external_body] pub fn join(&self, p: &str) -> PathBuf { unimplemented!() } }
#[derive(Debug)]
pub enum DBError { AlreadyExists, MissingForeignKey, MissingField, NotFound, Unknown }
impl std::fmt::Debug for SqliteError { #[verifier::external_body] fn fmt(&self, f: &mut std::fmt::Formatter<'_>) -> std::fmt::Result { unimplemented!() } }

//@ transcribes teos-common/src/dbm.rs :: trait DatabaseConnection :: sha=be9604449006586e
//@ transcribes watchtower-plugin/src/dbm.rs :: const TABLES :: sha=21c0a85503f1883b
pub struct DBM {
    pub ghost towers: Map<TowerId, TowerRow>,
    pub ghost reg_receipts: Map<(TowerId, u32), RegRow>,             // PRIMARY KEY (tower_id, subscription_expiry)
    pub ghost appt_receipts: Map<(TowerId, Locator), ReceiptRow>,    // PRIMARY KEY (locator, tower_id)
    pub ghost bodies: Map<Locator, BodyRow>,                         // appointments
    pub ghost pending: Set<(TowerId, Locator)>,
    pub ghost invalid: Set<(TowerId, Locator)>,
    pub ghost proofs: Map<TowerId, ProofRow>,
}
impl DBM {
    // FOREIGN KEY constraints
    pub open spec fn fk(&self) -> bool {
        &&& forall|k: (TowerId, u32)| #[trigger] self.reg_receipts.contains_key(k) ==> self.towers.contains_key(k.0)
        &&& forall|k: (TowerId, Locator)| #[trigger] self.appt_receipts.contains_key(k) ==> self.towers.contains_key(k.0)
        &&& forall|k: (TowerId, Locator)| #[trigger] self.pending.contains(k) ==> self.towers.contains_key(k.0) && self.bodies.contains_key(k.1)
        &&& forall|k: (TowerId, Locator)| #[trigger] self.invalid.contains(k) ==> self.towers.contains_key(k.0) && self.bodies.contains_key(k.1)
        &&& forall|t: TowerId| #[trigger] self.proofs.contains_key(t) ==> self.appt_receipts.contains_key((t, self.proofs[t].locator))
    }
    // `k` is a reference (pending or invalid row, any tower) to the body `l` other than tower `t`'s pending row
    pub open spec fn other_ref(&self, t: TowerId, l: Locator, k: (TowerId, Locator)) -> bool {
        k.1 == l && ((self.pending.contains(k) && k != (t, l)) || self.invalid.contains(k))
    }
    // the newest registration receipt of a tower: the one with the largest expiry
    pub open spec fn max_expiry(&self, t: TowerId, e: u32) -> bool {
        self.reg_receipts.contains_key((t, e)) && forall|e2: u32| #[trigger] self.reg_receipts.contains_key((t, e2)) ==> e2 <= e
    }
    pub open spec fn same_but(&self, o: &DBM, t: TowerId) -> bool {
        // every record that does not belong to tower `t` is the same
        &&& forall|x: TowerId| x != t ==> (#[trigger] self.towers.contains_key(x) <==> o.towers.contains_key(x)) && (o.towers.contains_key(x) ==> self.towers[x] == o.towers[x])
        &&& forall|k: (TowerId, u32)| k.0 != t ==> (#[trigger] self.reg_receipts.contains_key(k) <==> o.reg_receipts.contains_key(k)) && (o.reg_receipts.contains_key(k) ==> self.reg_receipts[k] == o.reg_receipts[k])
        &&& forall|k: (TowerId, Locator)| k.0 != t ==> (#[trigger] self.appt_receipts.contains_key(k) <==> o.appt_receipts.contains_key(k)) && (o.appt_receipts.contains_key(k) ==> self.appt_receipts[k] == o.appt_receipts[k])
        &&& forall|k: (TowerId, Locator)| k.0 != t ==> (#[trigger] self.pending.contains(k) <==> o.pending.contains(k))
        &&& forall|k: (TowerId, Locator)| k.0 != t ==> (#[trigger] self.invalid.contains(k) <==> o.invalid.contains(k))
        &&& forall|x: TowerId| x != t ==> (#[trigger] self.proofs.contains_key(x) <==> o.proofs.contains_key(x)) && (o.proofs.contains_key(x) ==> self.proofs[x] == o.proofs[x])
    }

    // every tower row was written together with a registration receipt (store_tower_record is one transaction)
    pub open spec fn towers_have_receipts(&self) -> bool {
        forall|t: TowerId| #[trigger] self.towers.contains_key(t) ==> exists|e: u32| self.max_expiry(t, e)
    }
    // Assumption A7 (on-disk integrity): the database found at start-up was written by this code - foreign keys hold
    // (SQLite enforces them: PRAGMA foreign_keys=1) and every tower row has its registration receipt; opening it succeeds.
//@ transcribes watchtower-plugin/src/dbm.rs :: impl DBM :: fn new :: sha=1274806b4f1b8ec2
    #[verifier::external_body]
    pub fn new(db_path: &PathBuf) -> (r: Result<DBM, SqliteError>)
        ensures r is Ok, r->Ok_0.fk(), r->Ok_0.towers_have_receipts(),
    { unimplemented!() }
//@ transcribes watchtower-plugin/src/dbm.rs :: impl DBM :: fn load_client_key :: sha=af9fc75e1bc67bcf
    #[verifier::external_body]
    pub fn load_client_key(&self) -> (r: Option<SecretKey>) { unimplemented!() }
//@ transcribes watchtower-plugin/src/dbm.rs :: impl DBM :: fn store_client_key :: sha=45647c6586c2616c
    #[verifier::external_body]
    pub fn store_client_key(&self, sk: &SecretKey) -> (r: Result<(), DBError>) ensures r is Ok { unimplemented!() }
    // SELECT towers JOIN their registration receipt with the largest expiry; pending / invalid locators per tower
    // (load_appointment_locators); status: proof stored => misbehaving, else pending data => temporary unreachable,
    // else reachable (TowerSummary::with_appointments)
//@ transcribes watchtower-plugin/src/dbm.rs :: impl DBM :: fn load_towers :: sha=d06e6147972c6699
//@ transcribes watchtower-plugin/src/dbm.rs :: impl DBM :: fn load_appointment_locators :: sha=8bb8920510a5664c
//@ transcribes watchtower-plugin/src/dbm.rs :: impl DBM :: fn exists_misbehaving_proof :: sha=034915740493a91f
//@ transcribes watchtower-plugin/src/lib.rs :: impl TowerSummary :: fn with_appointments :: sha=00f141d11d1693d2
    #[verifier::external_body]
    pub fn load_towers(&self) -> (r: HashMap<TowerId, TowerSummary>)
        ensures
            forall|t: TowerId| #[trigger] r@.contains_key(t) <==> self.towers.contains_key(t) && exists|e: u32| self.max_expiry(t, e),
            forall|t: TowerId| #[trigger] r@.contains_key(t) ==> {
                &&& r@[t].available_slots == self.towers[t].available_slots
                &&& r@[t].net_addr.net_addr@ == self.towers[t].net_addr
                &&& self.max_expiry(t, r@[t].subscription_expiry)
                &&& r@[t].subscription_start == self.reg_receipts[(t, r@[t].subscription_expiry)].subscription_start
                &&& (forall|l: Locator| #[trigger] r@[t].pending_appointments@.contains(l) <==> self.pending.contains((t, l)))
                &&& (forall|l: Locator| #[trigger] r@[t].invalid_appointments@.contains(l) <==> self.invalid.contains((t, l)))
                &&& r@[t].status == (if self.proofs.contains_key(t) { TowerStatus::Misbehaving }
                        else if r@[t].pending_appointments@.len() != 0 { TowerStatus::TemporaryUnreachable } else { TowerStatus::Reachable })
            },
    { unimplemented!() }

    // one transaction: upsert towers; INSERT INTO registration_receipts
//@ transcribes watchtower-plugin/src/dbm.rs :: impl DBM :: fn store_tower_record :: sha=5e929871c23040de
    #[verifier::external_body]
    pub fn store_tower_record(&mut self, tower_id: TowerId, net_addr: &str, receipt: &RegistrationReceipt) -> (r: Result<(), DBError>)
        ensures match r {
            Ok(_) => !old(self).reg_receipts.contains_key((tower_id, receipt.subscription_expiry))
                && final(self).towers == old(self).towers.insert(tower_id, TowerRow { net_addr: net_addr@, available_slots: receipt.available_slots })
                && final(self).reg_receipts == old(self).reg_receipts.insert((tower_id, receipt.subscription_expiry),
                        RegRow { available_slots: receipt.available_slots, subscription_start: receipt.subscription_start, signature: (match receipt.signature { Some(s) => Some(s@), None => None }) })
                && final(self).appt_receipts == old(self).appt_receipts && final(self).bodies == old(self).bodies && final(self).pending == old(self).pending
                && final(self).invalid == old(self).invalid && final(self).proofs == old(self).proofs,
            Err(_) => old(self).reg_receipts.contains_key((tower_id, receipt.subscription_expiry)) && *final(self) == *old(self),
        },
    { unimplemented!() }
    // SELECT towers JOIN newest registration receipt; + receipts, pending, invalid, proof; status is *derived*
//@ transcribes watchtower-plugin/src/dbm.rs :: impl DBM :: fn load_tower_record :: sha=1e9430a85bc41032
    #[verifier::external_body]
    pub fn load_tower_record(&self, tower_id: TowerId) -> (r: Option<TowerInfo>)
        ensures match r {
            Some(i) => self.towers.contains_key(tower_id) && i.net_addr@ == self.towers[tower_id].net_addr && i.available_slots == self.towers[tower_id].available_slots
                && self.max_expiry(tower_id, i.subscription_expiry) && i.subscription_start == self.reg_receipts[(tower_id, i.subscription_expiry)].subscription_start
                && (forall|l: Locator| (exists|j: int| 0 <= j < i.pending_appointments@.len() && (#[trigger] i.pending_appointments@[j]).locator == l) <==> self.pending.contains((tower_id, l)))
                && (forall|l: Locator| (exists|j: int| 0 <= j < i.invalid_appointments@.len() && (#[trigger] i.invalid_appointments@[j]).locator == l) <==> self.invalid.contains((tower_id, l)))
                && (i.misbehaving_proof is Some <==> self.proofs.contains_key(tower_id))
                && i.status == (if self.proofs.contains_key(tower_id) { TowerStatus::Misbehaving } else if i.pending_appointments@.len() > 0 { TowerStatus::TemporaryUnreachable } else { TowerStatus::Reachable }),
            None => !(self.towers.contains_key(tower_id) && exists|e: u32| self.reg_receipts.contains_key((tower_id, e))),
        },
    { unimplemented!() }
    // DELETE FROM towers WHERE tower_id   [cascades: registration_receipts, appointment_receipts (-> misbehaving_proofs), pending, invalid]
//@ transcribes watchtower-plugin/src/dbm.rs :: impl DBM :: fn remove_tower_record :: sha=4c74fb6c3c213c45
    #[verifier::external_body]
    pub fn remove_tower_record(&mut self, tower_id: TowerId) -> (r: Result<(), DBError>)
        ensures
            r is Ok <==> old(self).towers.contains_key(tower_id),
            final(self).towers == old(self).towers.remove(tower_id),
            final(self).same_but(old(self), tower_id),
            forall|k: (TowerId, u32)| k.0 == tower_id ==> !#[trigger] final(self).reg_receipts.contains_key(k),
            forall|k: (TowerId, Locator)| k.0 == tower_id ==> !#[trigger] final(self).appt_receipts.contains_key(k),
            forall|k: (TowerId, Locator)| k.0 == tower_id ==> !#[trigger] final(self).pending.contains(k),
            forall|k: (TowerId, Locator)| k.0 == tower_id ==> !#[trigger] final(self).invalid.contains(k),
            !final(self).proofs.contains_key(tower_id),
            final(self).bodies == old(self).bodies,      // appointment bodies are not touched by this DELETE (no cascade towards `appointments`)
    { unimplemented!() }
    // one transaction: INSERT INTO appointment_receipts; UPDATE towers SET available_slots
//@ transcribes watchtower-plugin/src/dbm.rs :: impl DBM :: fn store_appointment_receipt :: sha=5aa42fd5e0149d23
    #[verifier::external_body]
    pub fn store_appointment_receipt(&mut self, tower_id: TowerId, locator: Locator, available_slots: u32, receipt: &AppointmentReceipt) -> (r: Result<(), SqliteError>)
        ensures match r {
            Ok(_) => !old(self).appt_receipts.contains_key((tower_id, locator)) && old(self).towers.contains_key(tower_id)
                && final(self).appt_receipts == old(self).appt_receipts.insert((tower_id, locator), ReceiptRow { start_block: receipt.start_block, user_signature: receipt.user_signature@,
                        tower_signature: (match receipt.signature { Some(s) => Some(s@), None => None }) })
                && final(self).towers == old(self).towers.insert(tower_id, TowerRow { available_slots: available_slots, ..old(self).towers[tower_id] })
                && final(self).reg_receipts == old(self).reg_receipts && final(self).bodies == old(self).bodies && final(self).pending == old(self).pending
                && final(self).invalid == old(self).invalid && final(self).proofs == old(self).proofs,
            Err(_) => (old(self).appt_receipts.contains_key((tower_id, locator)) || !old(self).towers.contains_key(tower_id)) && *final(self) == *old(self),
        },
    { unimplemented!() }
    // SELECT start_block, user_signature, tower_signature FROM appointment_receipts WHERE tower_id = ?1 and locator = ?2
//@ transcribes watchtower-plugin/src/dbm.rs :: impl DBM :: fn load_appointment_receipt :: sha=1bd0dcb59157170e
    #[verifier::external_body]
    pub fn load_appointment_receipt(&self, tower_id: TowerId, locator: Locator) -> (r: Option<AppointmentReceipt>)
        ensures match r {
            Some(a) => self.appt_receipts.contains_key((tower_id, locator)) && a.start_block == self.appt_receipts[(tower_id, locator)].start_block
                && a.user_signature@ == self.appt_receipts[(tower_id, locator)].user_signature,
            None => !self.appt_receipts.contains_key((tower_id, locator)),
        },
    { unimplemented!() }
//@ transcribes watchtower-plugin/src/dbm.rs :: impl DBM :: fn load_appointment :: sha=6e8f625192db1ebb
    #[verifier::external_body]
    pub fn load_appointment(&self, locator: Locator) -> (r: Option<Appointment>)
        ensures match r {
            Some(a) => self.bodies.contains_key(locator) && a.locator == locator && a.encrypted_blob@ == self.bodies[locator].blob && a.to_self_delay == self.bodies[locator].to_self_delay,
            None => !self.bodies.contains_key(locator),
        },
    { unimplemented!() }
    // one transaction: INSERT INTO appointments (error ignored: body may exist); INSERT INTO pending_appointments
//@ transcribes watchtower-plugin/src/dbm.rs :: impl DBM :: fn store_pending_appointment :: sha=9c138af8f13ecd79
    #[verifier::external_body]
    pub fn store_pending_appointment(&mut self, tower_id: TowerId, appointment: &Appointment) -> (r: Result<(), SqliteError>)
        ensures match r {
            Ok(_) => !old(self).pending.contains((tower_id, appointment.locator)) && old(self).towers.contains_key(tower_id)
                && final(self).pending == old(self).pending.insert((tower_id, appointment.locator))
                && final(self).bodies == (if old(self).bodies.contains_key(appointment.locator) { old(self).bodies }
                        else { old(self).bodies.insert(appointment.locator, BodyRow { blob: appointment.encrypted_blob@, to_self_delay: appointment.to_self_delay }) })
                && final(self).towers == old(self).towers && final(self).reg_receipts == old(self).reg_receipts && final(self).appt_receipts == old(self).appt_receipts
                && final(self).invalid == old(self).invalid && final(self).proofs == old(self).proofs,
            Err(_) => (old(self).pending.contains((tower_id, appointment.locator)) || !old(self).towers.contains_key(tower_id)) && *final(self) == *old(self),
        },
    { unimplemented!() }
    // count references (pending + invalid rows with this locator, all towers); if exactly one: DELETE FROM appointments
    // (cascades to that row); else DELETE the pending row.  Specified for the case the callers are in: the row exists.
//@ transcribes watchtower-plugin/src/dbm.rs :: impl DBM :: fn delete_pending_appointment :: sha=542cd15e28c8afca
    #[verifier::external_body]
    pub fn delete_pending_appointment(&mut self, tower_id: TowerId, locator: Locator) -> (r: Result<(), SqliteError>)
        requires old(self).pending.contains((tower_id, locator)),
        ensures
            r is Ok,
            final(self).towers == old(self).towers && final(self).reg_receipts == old(self).reg_receipts && final(self).appt_receipts == old(self).appt_receipts && final(self).proofs == old(self).proofs,
            final(self).pending == old(self).pending.remove((tower_id, locator)),
            final(self).invalid == old(self).invalid,
            // the body goes with its last reference, and only then
            final(self).bodies == (if exists|k: (TowerId, Locator)| #[trigger] old(self).other_ref(tower_id, locator, k) { old(self).bodies } else { old(self).bodies.remove(locator) }),
    { unimplemented!() }
//@ transcribes watchtower-plugin/src/dbm.rs :: impl DBM :: fn store_invalid_appointment :: sha=1656e3502824db7d
    #[verifier::external_body]
    pub fn store_invalid_appointment(&mut self, tower_id: TowerId, appointment: &Appointment) -> (r: Result<(), SqliteError>)
        ensures match r {
            Ok(_) => !old(self).invalid.contains((tower_id, appointment.locator)) && old(self).towers.contains_key(tower_id)
                && final(self).invalid == old(self).invalid.insert((tower_id, appointment.locator))
                && final(self).bodies == (if old(self).bodies.contains_key(appointment.locator) { old(self).bodies }
                        else { old(self).bodies.insert(appointment.locator, BodyRow { blob: appointment.encrypted_blob@, to_self_delay: appointment.to_self_delay }) })
                && final(self).towers == old(self).towers && final(self).reg_receipts == old(self).reg_receipts && final(self).appt_receipts == old(self).appt_receipts
                && final(self).pending == old(self).pending && final(self).proofs == old(self).proofs,
            Err(_) => (old(self).invalid.contains((tower_id, appointment.locator)) || !old(self).towers.contains_key(tower_id)) && *final(self) == *old(self),
        },
    { unimplemented!() }
    // one transaction: INSERT INTO appointment_receipts; INSERT INTO misbehaving_proofs
//@ transcribes watchtower-plugin/src/dbm.rs :: impl DBM :: fn store_misbehaving_proof :: sha=258ae521ffcddd87
    #[verifier::external_body]
    pub fn store_misbehaving_proof(&mut self, tower_id: TowerId, proof: &MisbehaviorProof) -> (r: Result<(), SqliteError>)
        ensures match r {
            Ok(_) => !old(self).appt_receipts.contains_key((tower_id, proof.locator)) && !old(self).proofs.contains_key(tower_id) && old(self).towers.contains_key(tower_id)
                && final(self).proofs == old(self).proofs.insert(tower_id, ProofRow { locator: proof.locator, recovered_id: proof.recovered_id })
                && final(self).appt_receipts == old(self).appt_receipts.insert((tower_id, proof.locator), ReceiptRow { start_block: proof.appointment_receipt.start_block,
                        user_signature: proof.appointment_receipt.user_signature@, tower_signature: (match proof.appointment_receipt.signature { Some(s) => Some(s@), None => None }) })
                && final(self).towers == old(self).towers && final(self).reg_receipts == old(self).reg_receipts && final(self).bodies == old(self).bodies
                && final(self).pending == old(self).pending && final(self).invalid == old(self).invalid,
            Err(_) => (old(self).appt_receipts.contains_key((tower_id, proof.locator)) || old(self).proofs.contains_key(tower_id) || !old(self).towers.contains_key(tower_id)) && *final(self) == *old(self),
        },
    { unimplemented!() }
}

// foreign keys survive the cascading removal of one tower (ghost lemma, checked)
pub proof fn lemma_fk_after_remove(o: DBM, n: DBM, t: TowerId)
    requires
        o.fk(),
        n.towers == o.towers.remove(t),
        n.same_but(&o, t),
        forall|k: (TowerId, u32)| k.0 == t ==> !#[trigger] n.reg_receipts.contains_key(k),
        forall|k: (TowerId, Locator)| k.0 == t ==> !#[trigger] n.appt_receipts.contains_key(k),
        forall|k: (TowerId, Locator)| k.0 == t ==> !#[trigger] n.pending.contains(k),
        forall|k: (TowerId, Locator)| k.0 == t ==> !#[trigger] n.invalid.contains(k),
        !n.proofs.contains_key(t),
        n.bodies == o.bodies,
    ensures n.fk()
{
    assert forall|k: (TowerId, u32)| #[trigger] n.reg_receipts.contains_key(k) implies n.towers.contains_key(k.0) by { assert(k.0 != t); assert(o.reg_receipts.contains_key(k)); }
    assert forall|k: (TowerId, Locator)| #[trigger] n.appt_receipts.contains_key(k) implies n.towers.contains_key(k.0) by { assert(k.0 != t); assert(o.appt_receipts.contains_key(k)); }
    assert forall|k: (TowerId, Locator)| #[trigger] n.pending.contains(k) implies n.towers.contains_key(k.0) && n.bodies.contains_key(k.1) by { assert(k.0 != t); assert(o.pending.contains(k)); }
    assert forall|k: (TowerId, Locator)| #[trigger] n.invalid.contains(k) implies n.towers.contains_key(k.0) && n.bodies.contains_key(k.1) by { assert(k.0 != t); assert(o.invalid.contains(k)); }
    assert forall|x: TowerId| #[trigger] n.proofs.contains_key(x) implies n.appt_receipts.contains_key((x, n.proofs[x].locator)) by {
        assert(x != t); assert(o.proofs.contains_key(x)); assert(o.appt_receipts.contains_key((x, o.proofs[x].locator)));
    }
}

pub proof fn lemma_same_but_trans(a: DBM, b: DBM, c: DBM, t: TowerId)
    requires a.same_but(&b, t), b.same_but(&c, t)
    ensures a.same_but(&c, t)
{
}
pub proof fn lemma_same_but_refl(a: DBM, t: TowerId)
    ensures a.same_but(&a, t)
{
}
