} // verus!
fn main() {}
