// ---------------------------------------------------------------------------------------------
// TRUSTED: specifications for std functions that vstd (0.2026.09.13) does not specify.
// Each `assume_specification` restates the fully generic std signature.  They are assumptions,
// listed in every evidence file.
// ---------------------------------------------------------------------------------------------
pub assume_specification<'a, K, V, S, A, Q> [std::collections::HashMap::<K, V, S, A>::get_mut] (m: &'a mut std::collections::HashMap<K, V, S, A>, k: &Q) -> (r: std::option::Option<&'a mut V>)
    where
        A: std::alloc::Allocator,
        K: std::cmp::Eq + std::hash::Hash + std::borrow::Borrow<Q>,
        Q: std::marker::MetaSized + std::hash::Hash + std::cmp::Eq + ?Sized,
        S: std::hash::BuildHasher,
    ensures
        obeys_key_model::<K>() && builds_valid_hashers::<S>() ==> match r {
            Some(v) => maps_borrowed_key_to_value(old(m)@, k, *v)
                  && final(m)@.dom() == old(m)@.dom()
                  && maps_borrowed_key_to_value(final(m)@, k, *final(v))
                  && (forall|kk: K| #[trigger] old(m)@.contains_key(kk) && !contains_borrowed_key(Map::<K, V>::empty().insert(kk, old(m)@[kk]), k) ==> final(m)@[kk] == old(m)@[kk]),
            None => !contains_borrowed_key(old(m)@, k) && final(m)@ == old(m)@,
        };

pub assume_specification<K, V, S, A, F> [std::collections::HashMap::<K, V, S, A>::retain] (m: &mut std::collections::HashMap<K, V, S, A>, f: F)
    where
        A: std::alloc::Allocator,
        F: std::ops::FnMut(&K, &mut V) -> bool,
    ensures
        forall|k: K| #[trigger] final(m)@.contains_key(k) ==> old(m)@.contains_key(k) && final(m)@[k] == old(m)@[k]
            && exists|a: (&K, &mut V)| *a.0 == k && #[trigger] call_ensures(f, a, true),
        forall|k: K| #[trigger] old(m)@.contains_key(k) && !final(m)@.contains_key(k) ==>
            exists|a: (&K, &mut V)| *a.0 == k && #[trigger] call_ensures(f, a, false),
;

pub assume_specification<T, A: std::alloc::Allocator> [std::collections::VecDeque::<T, A>::back] (q: &std::collections::VecDeque<T, A>) -> (r: std::option::Option<&T>)
    ensures
        q@.len() == 0 ==> r is None,
        q@.len() > 0 ==> r == Some(&q@[q@.len() - 1]);

pub assume_specification<T, U, F> [std::option::Option::<T>::map_or] (o: std::option::Option<T>, default: U, f: F) -> (r: U)
    where
        F: std::ops::FnOnce(T,) -> U + std::marker::Destruct,
        U: std::marker::Destruct,
    requires
        o is Some ==> call_requires(f, (o->Some_0,)),
    ensures
        match o { Some(t) => call_ensures(f, (t,), r), None => r == default };

pub assume_specification<T> [bool::then_some] (b: bool, t: T) -> (r: std::option::Option<T>)
    ensures r == (if b { Some(t) } else { None::<T> });

pub assume_specification<T, E, U, D, F> [std::result::Result::<T, E>::map_or_else] (r: std::result::Result<T, E>, default: D, f: F) -> (u: U)
    where
        D: std::ops::FnOnce(E,) -> U + std::marker::Destruct,
        F: std::ops::FnOnce(T,) -> U + std::marker::Destruct,
    requires
        r is Ok ==> call_requires(f, (r->Ok_0,)),
        r is Err ==> call_requires(default, (r->Err_0,)),
    ensures
        match r { Ok(t) => call_ensures(f, (t,), u), Err(e) => call_ensures(default, (e,), u) };

pub assume_specification<T, A: std::alloc::Allocator> [std::collections::VecDeque::<T, A>::is_empty] (q: &std::collections::VecDeque<T, A>) -> (r: bool)
    ensures r == (q@.len() == 0);

// ---- further std functions a realistic edit may introduce (so that it is decided, not "unsupported construct") ----
pub assume_specification<T, A: std::alloc::Allocator> [std::collections::VecDeque::<T, A>::front] (q: &std::collections::VecDeque<T, A>) -> (r: std::option::Option<&T>)
    ensures
        q@.len() == 0 ==> r is None,
        q@.len() > 0 ==> r == Some(&q@[0]);

pub assume_specification [u32::abs_diff] (a: u32, b: u32) -> (r: u32)
    ensures r == (if a >= b { a - b } else { b - a });

pub assume_specification<T> [std::option::Option::<T>::or] (o: std::option::Option<T>, b: std::option::Option<T>) -> (r: std::option::Option<T>)
    where T: std::marker::Destruct
    ensures r == (if o is Some { o } else { b });

pub assume_specification<T, E> [std::result::Result::<T, E>::unwrap_or] (o: std::result::Result<T, E>, d: T) -> (r: T)
    where T: std::marker::Destruct, E: std::marker::Destruct
    ensures r == (match o { Ok(t) => t, Err(_) => d });

pub assume_specification<T, F> [std::option::Option::<T>::or_else] (o: std::option::Option<T>, f: F) -> (r: std::option::Option<T>)
    where F: std::ops::FnOnce() -> std::option::Option<T> + std::marker::Destruct
    requires o is None ==> call_requires(f, ()),
    ensures match o { Some(t) => r == Some(t), None => call_ensures(f, (), r) };

pub assume_specification<T, F> [std::option::Option::<T>::is_some_and] (o: std::option::Option<T>, f: F) -> (r: bool)
    where F: std::ops::FnOnce(T,) -> bool + std::marker::Destruct, T: std::marker::Destruct
    requires o is Some ==> call_requires(f, (o->Some_0,)),
    ensures match o { Some(t) => call_ensures(f, (t,), r), None => !r };

pub assume_specification<T, E, U, F> [std::result::Result::<T, E>::map_or] (r: std::result::Result<T, E>, default: U, f: F) -> (u: U)
    where
        F: std::ops::FnOnce(T,) -> U + std::marker::Destruct,
        U: std::marker::Destruct, T: std::marker::Destruct, E: std::marker::Destruct,
    requires
        r is Ok ==> call_requires(f, (r->Ok_0,)),
    ensures
        match r { Ok(t) => call_ensures(f, (t,), u), Err(_) => u == default };

// string normalisations: the result is an uninterpreted function of the argument (enough to decide that code which
// starts normalising a value no longer computes the function of the *original* value its contract names)
pub uninterp spec fn str_trim_spec(s: Seq<char>) -> Seq<char>;
pub uninterp spec fn str_trim_start_spec(s: Seq<char>) -> Seq<char>;
pub uninterp spec fn str_trim_end_spec(s: Seq<char>) -> Seq<char>;
pub uninterp spec fn str_lower_spec(s: Seq<char>) -> Seq<char>;
pub uninterp spec fn str_upper_spec(s: Seq<char>) -> Seq<char>;
// byte length of a string (UTF-8): an uninterpreted number (only ever used as a capacity hint in the code under contract)
pub uninterp spec fn str_byte_len(s: Seq<char>) -> usize;
pub assume_specification [String::len] (s: &String) -> (r: usize) ensures r == str_byte_len(s@), r <= 0x7fff_ffff_ffff_ffff;   // allocations are at most isize::MAX bytes
pub assume_specification [str::trim] (s: &str) -> (r: &str) ensures r@ == str_trim_spec(s@);
pub assume_specification [str::trim_start] (s: &str) -> (r: &str) ensures r@ == str_trim_start_spec(s@);
pub assume_specification [str::trim_end] (s: &str) -> (r: &str) ensures r@ == str_trim_end_spec(s@);
pub assume_specification [str::to_lowercase] (s: &str) -> (r: String) ensures r@ == str_lower_spec(s@);
pub assume_specification [str::to_uppercase] (s: &str) -> (r: String) ensures r@ == str_upper_spec(s@);
