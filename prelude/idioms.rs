// ---------------------------------------------------------------------------------------------
// TRUSTED (rule E19): helpers for std idioms that hand out a borrow into a container (no Verus
// specification can be attached to them).  The body of each helper is the original expression.
// ---------------------------------------------------------------------------------------------
#[verifier::external_body]
pub fn map_entry_or_insert<K: Eq + Hash, V>(m: &mut HashMap<K, V>, k: K, v: V)
    ensures obeys_key_model::<K>() ==> final(m)@ == (if old(m)@.contains_key(k) { old(m)@ } else { old(m)@.insert(k, v) }),
{ m.entry(k).or_insert(v); }
