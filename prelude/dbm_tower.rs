// ---------------------------------------------------------------------------------------------
// TRUSTED: the tower's DBM as ghost relations.  Every method is an external_body stub whose
// contract transcribes the SQL statement of teos/src/dbm.rs (incl. PRIMARY KEY, FOREIGN KEY and
// ON DELETE CASCADE).  SQLite is assumed to fail only on constraint violations.
// Writers take `&mut self` (rule E5); the real methods take `&self` on a connection.
// ---------------------------------------------------------------------------------------------
pub ghost struct ApptRow {
    pub locator: Locator,
    pub blob: Seq<u8>,
    pub to_self_delay: u32,
    pub user_signature: Seq<char>,
    pub start_block: u32,
    pub user_id: UserId,
}
pub ghost struct TrackerRow {
    pub dispute_tx: Transaction,
    pub penalty_tx: Transaction,
    pub height: u32,
    pub confirmed: bool,
}
pub open spec fn row_of(a: ExtendedAppointment) -> ApptRow {
    ApptRow { locator: a.inner.locator, blob: a.inner.encrypted_blob@, to_self_delay: a.inner.to_self_delay,
              user_signature: a.user_signature@, start_block: a.start_block, user_id: a.user_id }
}
#[derive(Debug)]
pub enum DbError { AlreadyExists, MissingForeignKey, MissingField, NotFound, Unknown }

//@ transcribes teos-common/src/dbm.rs :: trait DatabaseConnection :: sha=be9604449006586e
//@ transcribes teos/src/dbm.rs :: const TABLES :: sha=4ef8fc6b5faf3a7c
pub struct DBM {
    pub ghost users: Map<UserId, UserInfo>,
    pub ghost appts: Map<UUID, ApptRow>,
    pub ghost trackers: Map<UUID, TrackerRow>,
}
impl DBM {
    // FOREIGN KEY constraints (PRAGMA foreign_keys=ON)
    pub open spec fn fk(&self) -> bool {
        &&& forall|u: UUID| #[trigger] self.appts.contains_key(u) ==> self.users.contains_key(self.appts[u].user_id)
        &&& forall|u: UUID| #[trigger] self.trackers.contains_key(u) ==> self.appts.contains_key(u)
    }
    // INSERT INTO users
//@ transcribes teos/src/dbm.rs :: impl DBM :: fn store_user :: sha=834b487d0eb4f8dc
    #[verifier::external_body]
    pub fn store_user(&mut self, user_id: UserId, user_info: &UserInfo) -> (r: Result<(), DbError>)
        ensures
            final(self).appts == old(self).appts, final(self).trackers == old(self).trackers,
            match r {
                Ok(_) => !old(self).users.contains_key(user_id) && final(self).users == old(self).users.insert(user_id, *user_info),
                Err(_) => old(self).users.contains_key(user_id) && final(self).users == old(self).users,
            },
    { unimplemented!() }
    // UPDATE users SET ... WHERE user_id
//@ transcribes teos/src/dbm.rs :: impl DBM :: fn update_user :: sha=5a3e01bd14ebf07b
    #[verifier::external_body]
    pub fn update_user(&mut self, user_id: UserId, user_info: &UserInfo)
        ensures
            final(self).appts == old(self).appts, final(self).trackers == old(self).trackers,
            final(self).users == (if old(self).users.contains_key(user_id) { old(self).users.insert(user_id, *user_info) } else { old(self).users }),
    { unimplemented!() }
    // SELECT locator FROM appointments WHERE user_id
//@ transcribes teos/src/dbm.rs :: impl DBM :: fn load_user_locators :: sha=62eb5f6efd780c89
    #[verifier::external_body]
    pub fn load_user_locators(&self, user_id: UserId) -> (r: Vec<Locator>)
        ensures forall|l: Locator| r@.contains(l) <==> exists|u: UUID| #[trigger] self.appts.contains_key(u) && self.appts[u].user_id == user_id && self.appts[u].locator == l,
    { unimplemented!() }
    // SELECT * FROM users
//@ transcribes teos/src/dbm.rs :: impl DBM :: fn load_all_users :: sha=8bf0dc33aa4d41c1
    #[verifier::external_body]
    pub fn load_all_users(&self) -> (r: HashMap<UserId, UserInfo>)
        ensures r@ == self.users,
    { unimplemented!() }
    // DELETE FROM users WHERE user_id IN (...)   [cascades to appointments and trackers]
//@ transcribes teos/src/dbm.rs :: impl DBM :: fn batch_remove_users :: sha=80381e62cce5e3c2
    #[verifier::external_body]
    pub fn batch_remove_users(&mut self, users: &[UserId]) -> (r: usize)
        ensures
            final(self).users == old(self).users.remove_keys(users@.to_set()),
            forall|u: UUID| #[trigger] final(self).appts.contains_key(u) <==> old(self).appts.contains_key(u) && !users@.contains(old(self).appts[u].user_id),
            forall|u: UUID| final(self).appts.contains_key(u) ==> #[trigger] final(self).appts[u] == old(self).appts[u],
            forall|u: UUID| #[trigger] final(self).trackers.contains_key(u) <==> old(self).trackers.contains_key(u) && final(self).appts.contains_key(u),
            forall|u: UUID| final(self).trackers.contains_key(u) ==> #[trigger] final(self).trackers[u] == old(self).trackers[u],
    { unimplemented!() }
    // SELECT length(encrypted_blob) FROM appointments WHERE UUID
//@ transcribes teos/src/dbm.rs :: impl DBM :: fn get_appointment_length :: sha=d83639ad349dede9
    #[verifier::external_body]
    pub fn get_appointment_length(&self, uuid: UUID) -> (r: Option<usize>)
        ensures r == (if self.appts.contains_key(uuid) { Some(self.appts[uuid].blob.len() as usize) } else { None::<usize> }),
                self.appts.contains_key(uuid) ==> self.appts[uuid].blob.len() <= usize::MAX,
    { unimplemented!() }
    // SELECT user_id, length(encrypted_blob) FROM appointments WHERE UUID
//@ transcribes teos/src/dbm.rs :: impl DBM :: fn get_appointment_user_and_length :: sha=db0a7659cea47c10
    #[verifier::external_body]
    pub fn get_appointment_user_and_length(&self, uuid: UUID) -> (r: Option<(UserId, usize)>)
        ensures r == (if self.appts.contains_key(uuid) { Some((self.appts[uuid].user_id, self.appts[uuid].blob.len() as usize)) } else { None::<(UserId, usize)> }),
                self.appts.contains_key(uuid) ==> self.appts[uuid].blob.len() <= usize::MAX,
    { unimplemented!() }
    // DELETE FROM appointments WHERE UUID   [cascades to trackers]
//@ transcribes teos/src/dbm.rs :: impl DBM :: fn remove_appointment :: sha=61db56e64c35f358
    #[verifier::external_body]
    pub fn remove_appointment(&mut self, uuid: UUID)
        ensures
            final(self).users == old(self).users,
            final(self).appts == old(self).appts.remove(uuid),
            final(self).trackers == old(self).trackers.remove(uuid),
    { unimplemented!() }
    // one transaction: DELETE FROM appointments WHERE UUID IN (...) [cascade]; UPDATE users SET available_slots WHERE user_id
//@ transcribes teos/src/dbm.rs :: impl DBM :: fn batch_remove_appointments :: sha=dfb4defab656c62b
    #[verifier::external_body]
    pub fn batch_remove_appointments(&mut self, appointments: &[UUID], updated_users: &HashMap<UserId, UserInfo>) -> (r: usize)
        ensures
            final(self).appts == old(self).appts.remove_keys(appointments@.to_set()),
            final(self).trackers == old(self).trackers.remove_keys(appointments@.to_set()),
            final(self).users.dom() == old(self).users.dom(),
            forall|u: UserId| #[trigger] old(self).users.contains_key(u) ==> final(self).users[u] ==
                (if updated_users@.contains_key(u) { UserInfo { available_slots: updated_users@[u].available_slots, ..old(self).users[u] } } else { old(self).users[u] }),
    { unimplemented!() }
    // INSERT INTO appointments   [PRIMARY KEY UUID, FOREIGN KEY user_id]
//@ transcribes teos/src/dbm.rs :: impl DBM :: fn store_appointment :: sha=fb8780f92482363b
    #[verifier::external_body]
    pub fn store_appointment(&mut self, uuid: UUID, appointment: &ExtendedAppointment) -> (r: Result<(), DbError>)
        ensures
            final(self).users == old(self).users, final(self).trackers == old(self).trackers,
            match r {
                Ok(_) => !old(self).appts.contains_key(uuid) && old(self).users.contains_key(appointment.user_id)
                    && final(self).appts == old(self).appts.insert(uuid, row_of(*appointment)),
                Err(_) => final(self).appts == old(self).appts && (old(self).appts.contains_key(uuid) || !old(self).users.contains_key(appointment.user_id)),
            },
    { unimplemented!() }
    // UPDATE appointments SET encrypted_blob, to_self_delay, user_signature, start_block WHERE UUID
//@ transcribes teos/src/dbm.rs :: impl DBM :: fn update_appointment :: sha=05f476a2cffdffb7
    #[verifier::external_body]
    pub fn update_appointment(&mut self, uuid: UUID, appointment: &ExtendedAppointment) -> (r: Result<(), DbError>)
        ensures
            final(self).users == old(self).users, final(self).trackers == old(self).trackers,
            match r {
                Ok(_) => old(self).appts.contains_key(uuid)
                    && final(self).appts == old(self).appts.insert(uuid, ApptRow { blob: appointment.inner.encrypted_blob@, to_self_delay: appointment.inner.to_self_delay,
                            user_signature: appointment.user_signature@, start_block: appointment.start_block, ..old(self).appts[uuid] }),
                Err(_) => !old(self).appts.contains_key(uuid) && final(self).appts == old(self).appts,
            },
    { unimplemented!() }
    // SELECT ... FROM appointments WHERE UUID
//@ transcribes teos/src/dbm.rs :: impl DBM :: fn load_appointment :: sha=41240ca8c1ab3c9b
    #[verifier::external_body]
    pub fn load_appointment(&self, uuid: UUID) -> (r: Option<ExtendedAppointment>)
        ensures match r { Some(a) => self.appts.contains_key(uuid) && row_of(a) == self.appts[uuid], None => !self.appts.contains_key(uuid) },
    { unimplemented!() }
    // SELECT a.* FROM appointments a LEFT JOIN trackers t ON a.UUID=t.UUID WHERE t.UUID IS NULL [AND a.locator=?]: the appointments
    // still being watched (no tracker yet), optionally only those with the given locator
//@ transcribes teos/src/dbm.rs :: impl DBM :: fn load_appointments :: sha=043e74756c0b6f3b
    #[verifier::external_body]
    pub fn load_appointments(&self, locator: Option<Locator>) -> (r: HashMap<UUID, ExtendedAppointment>)
        ensures
            forall|u: UUID| #[trigger] r@.contains_key(u) <==> self.appts.contains_key(u) && !self.trackers.contains_key(u)
                && (locator matches Some(l) ==> self.appts[u].locator == l),
            forall|u: UUID| #[trigger] r@.contains_key(u) ==> row_of(r@[u]) == self.appts[u],
    { unimplemented!() }
//@ transcribes teos/src/dbm.rs :: impl DBM :: fn appointment_exists :: sha=984555af7ae9d0c3
    #[verifier::external_body]
    pub fn appointment_exists(&self, uuid: UUID) -> (r: bool)
        ensures r == self.appts.contains_key(uuid),
    { unimplemented!() }
//@ transcribes teos/src/dbm.rs :: impl DBM :: fn get_appointments_count :: sha=973685ac8f1f7300
    #[verifier::external_body]
    // SELECT COUNT(*) FROM appointments LEFT JOIN trackers .. WHERE t.UUID IS NULL: the appointments still being watched
    // (corrected after the bounded validation of these stubs against the real DBM showed the first transcription wrong)
    pub fn get_appointments_count(&self) -> (r: usize)
        ensures r == self.appts.dom().difference(self.trackers.dom()).len(),
    { unimplemented!() }
    // SELECT UUID FROM appointments WHERE locator
//@ transcribes teos/src/dbm.rs :: impl DBM :: fn load_uuids :: sha=bb5cdbf9e0163186
    #[verifier::external_body]
    pub fn load_uuids(&self, locator: Locator) -> (r: Vec<UUID>)
        ensures r@.no_duplicates(), forall|u: UUID| r@.contains(u) <==> #[trigger] self.appts.contains_key(u) && self.appts[u].locator == locator,
    { unimplemented!() }
    // SELECT locator FROM appointments WHERE locator IN (...)   [one row per appointment: may repeat a locator]
//@ transcribes teos/src/dbm.rs :: impl DBM :: fn batch_check_locators_exist :: sha=742076ab3d5173c4
    #[verifier::external_body]
    pub fn batch_check_locators_exist(&self, locators: Vec<&Locator>) -> (r: Vec<Locator>)
        ensures forall|l: Locator| r@.contains(l) <==> (exists|i: int| 0 <= i < locators@.len() && *#[trigger] locators@[i] == l) && (exists|u: UUID| #[trigger] self.appts.contains_key(u) && self.appts[u].locator == l),
    { unimplemented!() }
}
