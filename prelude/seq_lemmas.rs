// ---------------- generic sequence lemmas (ghost, checked by Verus in every unit that includes them) ----------------
pub proof fn lemma_push_contains<K>(s: Seq<K>, k: K)
    ensures forall|x: K| #[trigger] s.push(k).contains(x) <==> (x == k || s.contains(x)),
{
    assert forall|x: K| #[trigger] s.push(k).contains(x) <==> (x == k || s.contains(x)) by {
        if s.push(k).contains(x) {
            let i = choose|i: int| 0 <= i < s.push(k).len() && s.push(k)[i] == x;
            if i < s.len() { assert(s[i] == x); }
        }
        if s.contains(x) {
            let i = choose|i: int| 0 <= i < s.len() && s[i] == x;
            assert(s.push(k)[i] == x);
        }
        assert(s.push(k)[s.len() as int] == k);
    }
}

pub proof fn lemma_concat_contains<K>(a: Seq<K>, b: Seq<K>)
    ensures forall|x: K| #[trigger] (a + b).contains(x) <==> (a.contains(x) || b.contains(x)),
{
    assert forall|x: K| #[trigger] (a + b).contains(x) <==> (a.contains(x) || b.contains(x)) by {
        if (a + b).contains(x) {
            let i = choose|i: int| 0 <= i < (a + b).len() && (a + b)[i] == x;
            if i < a.len() { assert(a[i] == x); } else { assert(b[i - a.len()] == x); }
        }
        if a.contains(x) {
            let i = choose|i: int| 0 <= i < a.len() && a[i] == x;
            assert((a + b)[i] == x);
        }
        if b.contains(x) {
            let i = choose|i: int| 0 <= i < b.len() && b[i] == x;
            assert((a + b)[a.len() + i] == x);
        }
    }
}
