// ---------------- generic sequence lemmas (ghost, checked by Verus in every unit that includes them) ----------------
pub proof fn lemma_push_contains<K>(s: Seq<K>, k: K)
    ensures forall|x: K| #[trigger] s.push(k).contains(x) <==> (x == k || s.contains(x)),
{
    assert forall|x: K| #[trigger] s.push(k).contains(x) <==> (x == k || s.contains(x)) by {
        if s.push(k).contains(x) {
            let i = choose|i: int| 0 <= i < s.push(k).len() && s.push(k)[i] == x;
            if i < s.len() { assert(s[i] == x); }
        }
        if s.contains(x) {
            let i = choose|i: int| 0 <= i < s.len() && s[i] == x;
            assert(s.push(k)[i] == x);
        }
        assert(s.push(k)[s.len() as int] == k);
    }
}
