// ---------------------------------------------------------------------------------------------
// TRUSTED: tracker part of the tower DBM stub (see prelude/dbm_tower.rs).  Transcribes
// teos/src/dbm.rs incl. the non-SQL glue: `status.to_db_data().ok_or(MissingField)?` and
// `ConfirmationStatus::from_db_data(height, confirmed)`.
// ---------------------------------------------------------------------------------------------
pub open spec fn status_of(height: u32, confirmed: bool) -> ConfirmationStatus {
    if confirmed { ConfirmationStatus::ConfirmedIn(height) } else { ConfirmationStatus::InMempoolSince(height) }
}
pub open spec fn db_data_of(s: ConfirmationStatus) -> Option<(u32, bool)> {
    match s {
        ConfirmationStatus::ConfirmedIn(h) => Some((h, true)),
        ConfirmationStatus::InMempoolSince(h) => Some((h, false)),
        _ => None,
    }
}
pub open spec fn row_status(t: TrackerRow) -> ConfirmationStatus { status_of(t.height, t.confirmed) }

impl DBM {
    // INSERT INTO trackers
//@ transcribes teos/src/dbm.rs :: impl DBM :: fn store_tracker :: sha=998c88cb96636534
    #[verifier::external_body]
    pub fn store_tracker(&mut self, uuid: UUID, tracker: &TransactionTracker) -> (r: Result<(), DbError>)
        ensures
            final(self).users == old(self).users, final(self).appts == old(self).appts,
            match r {
                Ok(_) => db_data_of(tracker.status) is Some && !old(self).trackers.contains_key(uuid) && old(self).appts.contains_key(uuid)
                    && final(self).trackers == old(self).trackers.insert(uuid, TrackerRow { dispute_tx: tracker.dispute_tx, penalty_tx: tracker.penalty_tx,
                            height: db_data_of(tracker.status)->Some_0.0, confirmed: db_data_of(tracker.status)->Some_0.1 }),
                Err(_) => final(self).trackers == old(self).trackers
                    && (db_data_of(tracker.status) is None || old(self).trackers.contains_key(uuid) || !old(self).appts.contains_key(uuid)),
            },
    { unimplemented!() }
    // UPDATE trackers SET height, confirmed WHERE UUID
//@ transcribes teos/src/dbm.rs :: impl DBM :: fn update_tracker_status :: sha=167578f63fcc418e
    #[verifier::external_body]
    pub fn update_tracker_status(&mut self, uuid: UUID, status: &ConfirmationStatus) -> (r: Result<(), DbError>)
        ensures
            final(self).users == old(self).users, final(self).appts == old(self).appts,
            match r {
                Ok(_) => db_data_of(*status) is Some && old(self).trackers.contains_key(uuid)
                    && final(self).trackers == old(self).trackers.insert(uuid, TrackerRow { height: db_data_of(*status)->Some_0.0, confirmed: db_data_of(*status)->Some_0.1, ..old(self).trackers[uuid] }),
                Err(_) => final(self).trackers == old(self).trackers && (db_data_of(*status) is None || !old(self).trackers.contains_key(uuid)),
            },
    { unimplemented!() }
    // SELECT ... FROM trackers INNER JOIN appointments WHERE UUID
//@ transcribes teos/src/dbm.rs :: impl DBM :: fn load_tracker :: sha=a99829b6c4a5dd3c
    #[verifier::external_body]
    pub fn load_tracker(&self, uuid: UUID) -> (r: Option<TransactionTracker>)
        ensures match r {
            Some(t) => self.trackers.contains_key(uuid) && self.appts.contains_key(uuid)
                && t.dispute_tx == self.trackers[uuid].dispute_tx && t.penalty_tx == self.trackers[uuid].penalty_tx
                && t.status == row_status(self.trackers[uuid]) && t.user_id == self.appts[uuid].user_id,
            None => !(self.trackers.contains_key(uuid) && self.appts.contains_key(uuid)),
        },
    { unimplemented!() }
    // SELECT t.*, a.user_id FROM trackers t INNER JOIN appointments a ON t.UUID=a.UUID [WHERE a.locator=?]
//@ transcribes teos/src/dbm.rs :: impl DBM :: fn load_trackers :: sha=6bcfb5401ee4b300
    #[verifier::external_body]
    pub fn load_trackers(&self, locator: Option<Locator>) -> (r: HashMap<UUID, TransactionTracker>)
        ensures
            forall|u: UUID| #[trigger] r@.contains_key(u) <==> self.trackers.contains_key(u) && self.appts.contains_key(u)
                && (locator matches Some(l) ==> self.appts[u].locator == l),
            forall|u: UUID| #[trigger] r@.contains_key(u) ==> r@[u].dispute_tx == self.trackers[u].dispute_tx && r@[u].penalty_tx == self.trackers[u].penalty_tx
                && r@[u].status == row_status(self.trackers[u]) && r@[u].user_id == self.appts[u].user_id,
    { unimplemented!() }
//@ transcribes teos/src/dbm.rs :: impl DBM :: fn tracker_exists :: sha=eaa7a0521582ca13
    #[verifier::external_body]
    pub fn tracker_exists(&self, uuid: UUID) -> (r: bool)
        ensures r == self.trackers.contains_key(uuid),
    { unimplemented!() }
//@ transcribes teos/src/dbm.rs :: impl DBM :: fn get_trackers_count :: sha=d999b7f5c6db3fa9
    #[verifier::external_body]
    pub fn get_trackers_count(&self) -> (r: usize)
        ensures r == self.trackers.len(),
    { unimplemented!() }
    // SELECT UUID FROM trackers WHERE confirmed=(?1) AND height (= | <=) (?2)
//@ transcribes teos/src/dbm.rs :: impl DBM :: fn load_trackers_with_confirmation_status :: sha=9da6bb5ea9d29bde
    #[verifier::external_body]
    pub fn load_trackers_with_confirmation_status(&self, status: ConfirmationStatus) -> (r: Result<Vec<UUID>, DbError>)
        ensures match r {
            Ok(v) => db_data_of(status) is Some && v@.no_duplicates()
                && forall|u: UUID| v@.contains(u) <==> #[trigger] self.trackers.contains_key(u)
                    && self.trackers[u].confirmed == db_data_of(status)->Some_0.1
                    && (if self.trackers[u].confirmed { self.trackers[u].height == db_data_of(status)->Some_0.0 } else { self.trackers[u].height <= db_data_of(status)->Some_0.0 }),
            Err(_) => db_data_of(status) is None,
        },
    { unimplemented!() }
    // SELECT t.UUID, t.penalty_tx, t.height, t.confirmed FROM trackers INNER JOIN appointments
//@ transcribes teos/src/dbm.rs :: impl DBM :: fn load_penalties_summaries :: sha=7363f08cd4bff504
    #[verifier::external_body]
    pub fn load_penalties_summaries(&self) -> (r: HashMap<UUID, PenaltySummary>)
        ensures
            forall|u: UUID| #[trigger] r@.contains_key(u) <==> self.trackers.contains_key(u) && self.appts.contains_key(u),
            forall|u: UUID| r@.contains_key(u) ==> (#[trigger] r@[u]).penalty_txid == txid_spec(self.trackers[u].penalty_tx) && r@[u].status == row_status(self.trackers[u]),
    { unimplemented!() }
}
