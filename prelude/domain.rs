// ---------------------------------------------------------------------------------------------
// TRUSTED domain stand-ins: opaque values with structural equality and the hash-map key model.
// ---------------------------------------------------------------------------------------------
#[derive(Clone, Copy, Eq, Hash, Debug)]
pub struct PublicKey(pub u64);
impl vstd::std_specs::cmp::PartialEqSpecImpl for PublicKey {
    open spec fn obeys_eq_spec() -> bool { true }
    open spec fn eq_spec(&self, other: &PublicKey) -> bool { *self == *other }
}
impl PartialEq for PublicKey { fn eq(&self, other: &Self) -> bool { self.0 == other.0 } }
#[derive(Clone, Copy, PartialEq, Eq, Debug)]
pub struct SecretKey(pub u64);
#[derive(Clone, Copy, Eq, Hash, Debug)]
pub struct BlockHash(pub u64);
impl vstd::std_specs::cmp::PartialEqSpecImpl for BlockHash {
    open spec fn obeys_eq_spec() -> bool { true }
    open spec fn eq_spec(&self, other: &BlockHash) -> bool { *self == *other }
}
impl PartialEq for BlockHash { fn eq(&self, other: &Self) -> bool { self.0 == other.0 } }
#[derive(Clone, Copy, Eq, Hash, Debug)]
pub struct Txid(pub u64);
impl vstd::std_specs::cmp::PartialEqSpecImpl for Txid {
    open spec fn obeys_eq_spec() -> bool { true }
    open spec fn eq_spec(&self, other: &Txid) -> bool { *self == *other }
}
impl PartialEq for Txid { fn eq(&self, other: &Self) -> bool { self.0 == other.0 } }
#[derive(Clone, Copy, Eq, Hash, Debug)]
pub struct Locator(pub u64);
impl vstd::std_specs::cmp::PartialEqSpecImpl for Locator {
    open spec fn obeys_eq_spec() -> bool { true }
    open spec fn eq_spec(&self, other: &Locator) -> bool { *self == *other }
}
impl PartialEq for Locator { fn eq(&self, other: &Self) -> bool { self.0 == other.0 } }
#[derive(Clone, Copy, Eq, Hash, Debug)]
pub struct UUID(pub u64);
impl vstd::std_specs::cmp::PartialEqSpecImpl for UUID {
    open spec fn obeys_eq_spec() -> bool { true }
    open spec fn eq_spec(&self, other: &UUID) -> bool { *self == *other }
}
impl PartialEq for UUID { fn eq(&self, other: &Self) -> bool { self.0 == other.0 } }
#[derive(Clone, Copy, Eq, Hash, Debug)]
pub struct UserId(pub PublicKey);
impl vstd::std_specs::cmp::PartialEqSpecImpl for UserId {
    open spec fn obeys_eq_spec() -> bool { true }
    open spec fn eq_spec(&self, other: &UserId) -> bool { *self == *other }
}
impl PartialEq for UserId { fn eq(&self, other: &Self) -> bool { self.0 == other.0 } }
#[derive(Clone, Copy)]
pub struct Header { pub h: BlockHash, pub prev_blockhash: BlockHash }
impl Header {
    pub fn block_hash(&self) -> (r: BlockHash) ensures r == self.h { self.h }
}

pub broadcast proof fn axiom_blockhash_key_model() ensures #[trigger] obeys_key_model::<BlockHash>() { admit(); }
pub broadcast proof fn axiom_txid_key_model() ensures #[trigger] obeys_key_model::<Txid>() { admit(); }
pub broadcast proof fn axiom_locator_key_model() ensures #[trigger] obeys_key_model::<Locator>() { admit(); }
pub broadcast proof fn axiom_uuid_key_model() ensures #[trigger] obeys_key_model::<UUID>() { admit(); }
pub broadcast proof fn axiom_userid_key_model() ensures #[trigger] obeys_key_model::<UserId>() { admit(); }
pub broadcast group group_key_models {
    axiom_blockhash_key_model, axiom_txid_key_model, axiom_locator_key_model, axiom_uuid_key_model, axiom_userid_key_model,
}

// uuid = RIPEMD160(locator || user_id): uninterpreted; collision freedom is an explicit assumption
pub uninterp spec fn uuid_spec(locator: Locator, user_id: UserId) -> UUID;
pub broadcast proof fn axiom_uuid_injective(l1: Locator, u1: UserId, l2: Locator, u2: UserId)
    requires #[trigger] uuid_spec(l1, u1) == #[trigger] uuid_spec(l2, u2)
    ensures l1 == l2 && u1 == u2
{ admit(); }
impl UUID {
    #[verifier::external_body]
    pub fn new(locator: Locator, user_id: UserId) -> (r: UUID) ensures r == uuid_spec(locator, user_id) { unimplemented!() }
}

#[derive(PartialEq, Eq, Debug)]
pub struct Transaction(pub u64);
impl Clone for Transaction {
    fn clone(&self) -> (r: Self) ensures r == *self { Transaction(self.0) }
}
pub uninterp spec fn txid_spec(tx: Transaction) -> Txid;
impl Transaction {
    #[verifier::external_body]
    pub fn compute_txid(&self) -> (r: Txid) ensures r == txid_spec(*self) { unimplemented!() }
}

// locator = first 16 bytes of the txid (proved at byte level on the real `Locator::new` in the `wire` unit)
pub uninterp spec fn locator_spec(txid: Txid) -> Locator;
impl Locator {
    #[verifier::external_body]
    pub fn new(txid: Txid) -> (r: Locator) ensures r == locator_spec(txid) { unimplemented!() }
}

// Display for the id stand-ins, so that formatted messages (log!, panic!, unreachable!) that mention them type-check
// no formatting precondition: these ids can always be printed (vstd's `format!` support asks for `fmt_req`)
impl vstd::std_specs::fmt::DisplaySpecImpl for Txid { open spec fn fmt_req(&self, f: &std::fmt::Formatter<'_>) -> bool { true } }
impl vstd::std_specs::fmt::DisplaySpecImpl for BlockHash { open spec fn fmt_req(&self, f: &std::fmt::Formatter<'_>) -> bool { true } }
impl vstd::std_specs::fmt::DisplaySpecImpl for Locator { open spec fn fmt_req(&self, f: &std::fmt::Formatter<'_>) -> bool { true } }
impl vstd::std_specs::fmt::DisplaySpecImpl for UUID { open spec fn fmt_req(&self, f: &std::fmt::Formatter<'_>) -> bool { true } }
impl vstd::std_specs::fmt::DisplaySpecImpl for UserId { open spec fn fmt_req(&self, f: &std::fmt::Formatter<'_>) -> bool { true } }
impl std::fmt::Display for Txid { #[verifier::external_body] fn fmt(&self, f: &mut std::fmt::Formatter<'_>) -> std::fmt::Result { unimplemented!() } }
impl std::fmt::Display for BlockHash { #[verifier::external_body] fn fmt(&self, f: &mut std::fmt::Formatter<'_>) -> std::fmt::Result { unimplemented!() } }
impl std::fmt::Display for Locator { #[verifier::external_body] fn fmt(&self, f: &mut std::fmt::Formatter<'_>) -> std::fmt::Result { unimplemented!() } }
impl std::fmt::Display for UUID { #[verifier::external_body] fn fmt(&self, f: &mut std::fmt::Formatter<'_>) -> std::fmt::Result { unimplemented!() } }
impl std::fmt::Display for UserId { #[verifier::external_body] fn fmt(&self, f: &mut std::fmt::Formatter<'_>) -> std::fmt::Result { unimplemented!() } }
