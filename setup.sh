#!/bin/sh
# offline set-up: nothing to build, only sanity checks of the installed tools
set -e
cd "$(dirname "$0")"
mkdir -p build evidence replays
command -v verus >/dev/null
python3 -c "import sys; sys.path.insert(0,'tools'); import extract, runner"
echo setup ok
