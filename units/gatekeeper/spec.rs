// slots an appointment of n bytes occupies.  The real function is f32 arithmetic; the Kani unit
// `slots_kani` proves `compute_appointment_slots(n, 2048) == slots_spec(n)` for all 0 <= n <= 2^24
// (complete, loop-free).  Here the same contract is assumed on a stub.
pub open spec fn slots_spec(n: int) -> int { (n + 2047) / 2048 }
pub const MAX_BLOB: usize = 0x100_0000;
// slots refunded to user `u` by the first `n` listed appointments
pub open spec fn refund_total(appts: Map<UUID, ApptRow>, list: Seq<UUID>, u: UserId, n: int) -> int
    decreases n
{
    if n <= 0 { 0 } else {
        refund_total(appts, list, u, n - 1) + (if appts[list[n - 1]].user_id == u { slots_spec(appts[list[n - 1]].blob.len() as int) } else { 0 })
    }
}

pub proof fn lemma_refund_step(appts: Map<UUID, ApptRow>, list: Seq<UUID>, n: int)
    requires n >= 1
    ensures forall|u: UserId| #[trigger] refund_total(appts, list, u, n) == refund_total(appts, list, u, n - 1)
        + (if appts[list[n - 1]].user_id == u { slots_spec(appts[list[n - 1]].blob.len() as int) } else { 0 }),
{
}

pub proof fn lemma_refund_mono(appts: Map<UUID, ApptRow>, list: Seq<UUID>, a: int, b: int)
    requires 0 <= a <= b
    ensures forall|u: UserId| 0 <= #[trigger] refund_total(appts, list, u, a) <= refund_total(appts, list, u, b),
    decreases b
{
    assert forall|u: UserId| 0 <= #[trigger] refund_total(appts, list, u, a) <= refund_total(appts, list, u, b) by {
        lemma_refund_nonneg(appts, list, u, a);
        if a < b {
            lemma_refund_mono(appts, list, a, b - 1);
            assert(refund_total(appts, list, u, a) <= refund_total(appts, list, u, b - 1));
        }
    }
}

pub proof fn lemma_refund_nonneg(appts: Map<UUID, ApptRow>, list: Seq<UUID>, u: UserId, n: int)
    ensures 0 <= refund_total(appts, list, u, n)
    decreases n
{
    if n > 0 { lemma_refund_nonneg(appts, list, u, n - 1); }
}


