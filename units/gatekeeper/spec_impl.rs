    pub open spec fn users(&self) -> Map<UserId, UserInfo> { self.registered_users.inner@ }
    pub open spec fn height(&self) -> u32 { self.last_known_block_height.v }
    // in-memory users mirror the users table; foreign keys hold; stored blobs are within the transport limit
    pub open spec fn inv(&self) -> bool {
        &&& self.registered_users.inner@ =~= self.dbm.inner.users
        &&& self.dbm.inner.fk()
        &&& forall|u: UUID| #[trigger] self.dbm.inner.appts.contains_key(u) ==> self.dbm.inner.appts[u].blob.len() <= MAX_BLOB
    }
    pub open spec fn conf_eq(&self, o: &Gatekeeper) -> bool {
        self.subscription_slots == o.subscription_slots && self.subscription_duration == o.subscription_duration && self.expiry_delta == o.expiry_delta
    }
    pub open spec fn unchanged(&self, o: &Gatekeeper) -> bool {
        self.conf_eq(o) && self.registered_users.inner@ == o.registered_users.inner@ && self.dbm.inner == o.dbm.inner && self.last_known_block_height.v == o.last_known_block_height.v
    }

