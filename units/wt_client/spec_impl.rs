    // C18: the in-memory tower summaries mirror the persisted records
    pub open spec fn mirror(&self) -> bool {
        &&& self.dbm.fk()
        &&& forall|t: TowerId| #[trigger] self.towers@.contains_key(t) <==> self.dbm.towers.contains_key(t)
        &&& forall|t: TowerId| #[trigger] self.towers@.contains_key(t) ==> {
            &&& self.towers@[t].available_slots == self.dbm.towers[t].available_slots
            &&& self.dbm.max_expiry(t, self.towers@[t].subscription_expiry)
            &&& forall|l: Locator| #[trigger] self.towers@[t].pending_appointments@.contains(l) <==> self.dbm.pending.contains((t, l))
            &&& forall|l: Locator| #[trigger] self.towers@[t].invalid_appointments@.contains(l) <==> self.dbm.invalid.contains((t, l))
            &&& (self.dbm.proofs.contains_key(t) ==> self.towers@[t].status == TowerStatus::Misbehaving)
        }
    }
