    // C18: the in-memory tower summaries mirror the persisted records
    pub open spec fn mirror(&self) -> bool {
        &&& self.dbm.fk()
        &&& forall|t: TowerId| #[trigger] self.towers@.contains_key(t) <==> self.dbm.towers.contains_key(t)
        &&& forall|t: TowerId| #[trigger] self.towers@.contains_key(t) ==> {
            &&& self.towers@[t].available_slots == self.dbm.towers[t].available_slots
            &&& self.dbm.max_expiry(t, self.towers@[t].subscription_expiry)
            &&& forall|l: Locator| #[trigger] self.towers@[t].pending_appointments@.contains(l) <==> self.dbm.pending.contains((t, l))
            &&& forall|l: Locator| #[trigger] self.towers@[t].invalid_appointments@.contains(l) <==> self.dbm.invalid.contains((t, l))
            &&& (self.dbm.proofs.contains_key(t) ==> self.towers@[t].status == TowerStatus::Misbehaving)
        }
    }

    // C05: a (tower, locator) pair is recorded as accepted (signed receipt stored), pending or invalid (full data stored)
    pub open spec fn recorded(&self, t: TowerId, l: Locator) -> bool {
        self.dbm.appt_receipts.contains_key((t, l)) || self.dbm.pending.contains((t, l)) || self.dbm.invalid.contains((t, l))
    }
    // C05 "exactly one of": for a tower that is not proven misbehaving no pair is in two of the three relations
    // (flagging a tower stores the offending receipt next to whatever record it had: C05 excludes such towers)
    pub open spec fn classified_once(&self) -> bool {
        &&& forall|k: (TowerId, Locator)| #[trigger] self.dbm.pending.contains(k) && !self.dbm.proofs.contains_key(k.0) ==> !self.dbm.appt_receipts.contains_key(k) && !self.dbm.invalid.contains(k)
        &&& forall|k: (TowerId, Locator)| #[trigger] self.dbm.invalid.contains(k) && !self.dbm.proofs.contains_key(k.0) ==> !self.dbm.appt_receipts.contains_key(k)
    }
    // the three relations only grow (nothing that was recorded is forgotten or re-classified)
    pub open spec fn keeps_records_of(&self, o: &WTClient) -> bool {
        &&& forall|k: (TowerId, Locator)| #[trigger] o.dbm.appt_receipts.contains_key(k) ==> self.dbm.appt_receipts.contains_key(k) && self.dbm.appt_receipts[k] == o.dbm.appt_receipts[k]
        &&& forall|k: (TowerId, Locator)| #[trigger] o.dbm.pending.contains(k) ==> self.dbm.pending.contains(k)
        &&& forall|k: (TowerId, Locator)| #[trigger] o.dbm.invalid.contains(k) ==> self.dbm.invalid.contains(k)
        &&& forall|l: Locator| #[trigger] o.dbm.bodies.contains_key(l) ==> self.dbm.bodies.contains_key(l) && self.dbm.bodies[l] == o.dbm.bodies[l]
    }

    // C18: the in-memory summaries of the other towers are untouched, and the addressed tower keeps its status
    pub open spec fn others_untouched(&self, o: &WTClient, t: TowerId) -> bool {
        forall|x: TowerId| x != t && #[trigger] o.towers@.contains_key(x) ==> self.towers@.contains_key(x) && self.towers@[x] == o.towers@[x]
    }
    pub open spec fn status_kept(&self, o: &WTClient, t: TowerId) -> bool {
        o.towers@.contains_key(t) ==> self.towers@.contains_key(t) && self.towers@[t].status == o.towers@[t].status
    }

    // frame: a mutator of the store leaves the retrier table, the channel and the identity alone
    pub open spec fn rest_untouched(&self, o: &WTClient) -> bool {
        self.retriers == o.retriers && self.unreachable_towers == o.unreachable_towers && self.user_sk == o.user_sk && self.user_id == o.user_id && self.proxy == o.proxy
    }
