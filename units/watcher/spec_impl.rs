    pub open spec fn db(&self) -> DBM { self.dbm.inner }
    pub open spec fn cache(&self) -> TxIndex<Locator, Transaction> { self.locator_cache.inner }
    // every cached transaction is filed under the locator of its own id
    pub open spec fn cache_ok(&self) -> bool {
        forall|l: Locator| #[trigger] self.cache().index@.contains_key(l) ==> locator_spec(txid_spec(self.cache().index@[l])) == l
    }
    // appointments are keyed by RIPEMD160(locator || user)
    pub open spec fn uuid_ok(db: DBM) -> bool {
        forall|u: UUID| #[trigger] db.appts.contains_key(u) ==> u == uuid_spec(db.appts[u].locator, db.appts[u].user_id)
    }
    // Watcher invariant: the three handles on the shared database agree when no call is in progress (rule E16), each
    // collaborator's own invariant holds, the cache is well formed
    pub open spec fn winv(&self) -> bool {
        &&& self.cache().wf() && self.cache().size >= 1 && self.cache_ok()
        &&& self.gatekeeper.dbm.inner == self.dbm.inner && self.responder.dbm.inner == self.dbm.inner
        &&& self.gatekeeper.inv()
        &&& self.responder.rinv()
        &&& Self::uuid_ok(self.db())
    }
    pub open spec fn others_same(&self, o: &Watcher) -> bool {
        self.locator_cache == o.locator_cache && self.last_known_block_height.v == o.last_known_block_height.v && self.signing_key == o.signing_key && self.tower_id == o.tower_id
    }
    // A1 (form used by add_update_appointment): replacing any held appointment cannot overflow the owner's balance
    pub open spec fn replace_bounded(&self) -> bool {
        forall|w: UserId, u: UUID| #![trigger self.db().users[w], self.db().appts[u]] self.db().users.contains_key(w) && self.db().appts.contains_key(u)
            ==> self.db().users[w].available_slots + slots_spec(self.db().appts[u].blob.len() as int) <= u32::MAX
    }
    // the history invariant finding F3 breaks: a stored appointment whose dispute is inside the cache window has been answered
    pub open spec fn f3_free(&self) -> bool {
        forall|u: UUID| #[trigger] self.db().appts.contains_key(u) && self.cache().index@.contains_key(self.db().appts[u].locator) ==> self.db().trackers.contains_key(u)
    }
    // nothing observable changed (maps compared by their views)
    pub open spec fn same_state(&self, o: &Watcher) -> bool {
        self.others_same(o) && self.dbm.inner == o.dbm.inner && self.responder == o.responder && self.gatekeeper.unchanged(&o.gatekeeper)
    }
    // winv except that the Gatekeeper's handle on the database may lag behind (it is re-synchronised before it is used)
    pub open spec fn winv_but_gk_db(&self) -> bool {
        &&& self.cache().wf() && self.cache().size >= 1 && self.cache_ok()
        &&& self.responder.dbm.inner == self.dbm.inner
        &&& self.gatekeeper.registered_users.inner@ =~= self.db().users
        &&& (forall|u: UUID| #[trigger] self.db().appts.contains_key(u) ==> self.db().appts[u].blob.len() <= MAX_BLOB)
        &&& self.responder.rinv()
        &&& Self::uuid_ok(self.db())
    }
