// ---------------- spec of the Watcher's per-block work (C01, C02) ----------------
// appointment `u` is triggered by the block: its locator is one of the block's locators
pub open spec fn matched(appts: Map<UUID, ApptRow>, breaches: Map<Locator, Transaction>, u: UUID) -> bool {
    appts.contains_key(u) && breaches.contains_key(appts[u].locator)
}
// the penalty the tower must answer with: the blob decrypted under the dispute transaction's id
pub open spec fn penalty_of(appts: Map<UUID, ApptRow>, breaches: Map<Locator, Transaction>, u: UUID) -> Option<Transaction> {
    dec_spec(appts[u].blob, txid_spec(breaches[appts[u].locator]))
}
// C01: a triggered appointment has been answered before the block is finished: it is listed as invalid (to be dropped),
// or it is tracked, or the node has reported its penalty as already confirmed long ago
pub open spec fn answered(appts: Map<UUID, ApptRow>, breaches: Map<Locator, Transaction>, trackers: Map<UUID, TrackerRow>,
                          receipts: Map<Txid, ConfirmationStatus>, invalid: Seq<UUID>, u: UUID) -> bool {
    ||| invalid.contains(u)
    ||| trackers.contains_key(u)
    ||| (penalty_of(appts, breaches, u) matches Some(p) && receipts.contains_key(txid_spec(p)) && receipts[txid_spec(p)] == ConfirmationStatus::IrrevocablyResolved)
}
// C01: a triggered appointment may be given up (listed as invalid, deleted without refund) only for cause: its blob does not
// decrypt under the dispute id, or the node rejected its penalty
pub open spec fn dropped_for_cause(appts: Map<UUID, ApptRow>, breaches: Map<Locator, Transaction>, receipts: Map<Txid, ConfirmationStatus>, u: UUID) -> bool {
    match penalty_of(appts, breaches, u) {
        None => true,
        Some(p) => receipts.contains_key(txid_spec(p)) && receipts[txid_spec(p)] is Rejected,
    }
}
// C02: the only transactions the Watcher's block processing may hand to the node
pub open spec fn is_breach_penalty(appts: Map<UUID, ApptRow>, breaches: Map<Locator, Transaction>, tx: Transaction) -> bool {
    exists|u: UUID| #[trigger] matched(appts, breaches, u) && penalty_of(appts, breaches, u) == Some(tx)
}
// a tracker created while handling the block belongs to a triggered appointment and carries exactly its dispute and penalty
pub open spec fn tracker_justified(appts: Map<UUID, ApptRow>, breaches: Map<Locator, Transaction>, row: TrackerRow, u: UUID) -> bool {
    matched(appts, breaches, u) && row.dispute_tx == breaches[appts[u].locator] && penalty_of(appts, breaches, u) == Some(row.penalty_tx)
}
