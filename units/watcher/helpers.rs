// TRUSTED helper (rule E11): `format!(LIT)` with the inline argument `{locator}`; the rendering is abstract
pub uninterp spec fn fmt_spec(lit: Seq<char>, locator: Locator) -> Seq<char>;
#[verifier::external_body]
pub fn fmt_locator(lit: &str, locator: Locator) -> (r: String) ensures r@ == fmt_spec(lit@, locator) { unimplemented!() }

// TRUSTED helper (site rewrite in get_breaches): `m.keys().collect::<Vec<&Locator>>()`
#[verifier::external_body]
pub fn keys_vec<'a>(m: &'a HashMap<Locator, Transaction>) -> (r: Vec<&'a Locator>)
    ensures forall|l: Locator| m@.contains_key(l) <==> exists|i: int| 0 <= i < r@.len() && *#[trigger] r@[i] == l,
{
    m.keys().collect()
}
