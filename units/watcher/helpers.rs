// TRUSTED helper (rule E11): `format!(LIT)` with the inline argument `{locator}`; the rendering is abstract
pub uninterp spec fn fmt_spec(lit: Seq<char>, locator: Locator) -> Seq<char>;
#[verifier::external_body]
pub fn fmt_locator(lit: &str, locator: Locator) -> (r: String) ensures r@ == fmt_spec(lit@, locator) { unimplemented!() }

// TRUSTED helper (site rewrite in get_breaches): `m.keys().collect::<Vec<&Locator>>()`
#[verifier::external_body]
pub fn keys_vec<'a>(m: &'a HashMap<Locator, Transaction>) -> (r: Vec<&'a Locator>)
    ensures forall|l: Locator| m@.contains_key(l) <==> exists|i: int| 0 <= i < r@.len() && *#[trigger] r@[i] == l,
{
    m.keys().collect()
}
// TRUSTED helper (site rewrite in get_breaches): `v.iter().map(|l| (*l, m[l].clone())).collect::<HashMap<_, _>>()`
// (indexing panics on a missing key, hence the precondition)
#[verifier::external_body]
pub fn restrict_map(m: &HashMap<Locator, Transaction>, v: &Vec<Locator>) -> (r: HashMap<Locator, Transaction>)
    requires forall|i: int| 0 <= i < v@.len() ==> m@.contains_key(#[trigger] v@[i]),
    ensures
        forall|l: Locator| #[trigger] r@.contains_key(l) <==> v@.contains(l),
        forall|l: Locator| r@.contains_key(l) ==> #[trigger] r@[l] == m@[l],
{
    v.iter().map(|l| (*l, m[l].clone())).collect()
}
// TRUSTED helper (site rewrite in filtered_block_connected):
// `txdata.iter().map(|(_, tx)| (Locator::new(tx.compute_txid()), (*tx).clone())).collect::<HashMap<_, _>>()`
#[verifier::external_body]
pub fn locator_tx_map_of(txdata: &Vec<(usize, Transaction)>) -> (r: HashMap<Locator, Transaction>)
    ensures
        forall|l: Locator| #[trigger] r@.contains_key(l) <==> exists|i: int| 0 <= i < txdata@.len() && locator_spec(txid_spec(#[trigger] txdata@[i].1)) == l,
        forall|l: Locator| r@.contains_key(l) ==> exists|i: int| 0 <= i < txdata@.len() && #[trigger] txdata@[i].1 == r@[l] && locator_spec(txid_spec(txdata@[i].1)) == l,
{
    txdata.iter().map(|p| (Locator::new(p.1.compute_txid()), p.1.clone())).collect()
}
