// TRUSTED helper (rule E11): `format!(LIT)` with the inline argument `{locator}`; the rendering is abstract
pub uninterp spec fn fmt_spec(lit: Seq<char>, locator: Locator) -> Seq<char>;
#[verifier::external_body]
pub fn fmt_locator(lit: &str, locator: Locator) -> (r: String) ensures r@ == fmt_spec(lit@, locator) { unimplemented!() }
