// ---------------- spec of the Carrier (shared with the units that stub it) ----------------
// the documented verdict table of `sendrawtransaction` outcomes
pub open spec fn verdict_of(reply: SendReply, height: u32) -> ConfirmationStatus {
    match reply {
        SendReply::Accepted => ConfirmationStatus::InMempoolSince(height),
        SendReply::Rpc(code) =>
            if code == -26 { ConfirmationStatus::Rejected(-26i32) }           // RPC_VERIFY_REJECTED
            else if code == -25 { ConfirmationStatus::Rejected(-25i32) }      // RPC_VERIFY_ERROR
            else if code == -27 { ConfirmationStatus::IrrevocablyResolved } // RPC_VERIFY_ALREADY_IN_CHAIN
            else if code == -22 { ConfirmationStatus::Rejected(-22i32) }      // RPC_DESERIALIZATION_ERROR
            else { ConfirmationStatus::Rejected(-257i32) },                   // UNKNOWN_JSON_RPC_EXCEPTION
        SendReply::Transport => arbitrary(),
        SendReply::Other => ConfirmationStatus::Rejected(-257i32),
    }
}
// the node answered this submission with a rejection (not "accepted", not "already in the chain")
pub open spec fn reply_rejects(reply: SendReply) -> bool {
    match reply { SendReply::Rpc(code) => code != -27, SendReply::Other => true, _ => false }
}
// some submission of a transaction with this id was rejected by the node
pub open spec fn rejected_call(calls: Seq<(Transaction, SendReply)>, t: Txid) -> bool {
    exists|i: int| 0 <= i < calls.len() && txid_spec((#[trigger] calls[i]).0) == t && reply_rejects(calls[i].1)
}
pub proof fn lemma_rejected_call_extends(c0: Seq<(Transaction, SendReply)>, c1: Seq<(Transaction, SendReply)>, t: Txid)
    requires rejected_call(c0, t), c1.len() >= c0.len(), c1.subrange(0, c0.len() as int) == c0
    ensures rejected_call(c1, t)
{
    let i = choose|i: int| 0 <= i < c0.len() && txid_spec((#[trigger] c0[i]).0) == t && reply_rejects(c0[i].1);
    assert(c1.subrange(0, c0.len() as int)[i] == c1[i]);
}
// the calls appended by one `send_transaction(tx)`: n >= 1 calls, all for `tx`, all but the last answered
// by a transport error (retried), the last one answered by something else
pub open spec fn sent_only(old_calls: Seq<(Transaction, SendReply)>, new_calls: Seq<(Transaction, SendReply)>, tx: Transaction) -> bool {
    &&& new_calls.len() > old_calls.len()
    &&& new_calls.subrange(0, old_calls.len() as int) == old_calls
    &&& forall|i: int| old_calls.len() <= i < new_calls.len() ==> (#[trigger] new_calls[i]).0 == tx
    &&& forall|i: int| old_calls.len() <= i < new_calls.len() - 1 ==> (#[trigger] new_calls[i]).1 == SendReply::Transport
    &&& new_calls.last().1 != SendReply::Transport
}

pub proof fn lemma_sent_only_compose(c0: Seq<(Transaction, SendReply)>, c1: Seq<(Transaction, SendReply)>, tx: Transaction)
    requires sent_only(c0.push((tx, SendReply::Transport)), c1, tx)
    ensures sent_only(c0, c1, tx)
{
    let mid = c0.push((tx, SendReply::Transport));
    assert(c1.subrange(0, c0.len() as int) =~= c0) by {
        assert forall|i: int| 0 <= i < c0.len() implies c1.subrange(0, c0.len() as int)[i] == c0[i] by {
            assert(c1.subrange(0, mid.len() as int)[i] == mid[i]);
        }
    }
    assert(c1[c0.len() as int] == mid[c0.len() as int]) by {
        assert(c1.subrange(0, mid.len() as int)[c0.len() as int] == mid[c0.len() as int]);
    }
}
