    pub open spec fn calls(&self) -> Seq<(Transaction, SendReply)> { self.bitcoin_cli.calls }
    pub open spec fn receipts(&self) -> Map<Txid, ConfirmationStatus> { self.issued_receipts@ }
    // memoised verdicts come from `send_transaction`, which never answers ConfirmedIn
    pub open spec fn wf(&self) -> bool {
        forall|t: Txid| #[trigger] self.issued_receipts@.contains_key(t) ==> !(self.issued_receipts@[t] matches ConfirmationStatus::ConfirmedIn(_))
    }
    // every memoised rejection was pronounced by the node: a `Rejected` verdict is backed by a rejected submission in the log
    pub open spec fn rc_ok(&self) -> bool {
        forall|t: Txid| #[trigger] self.issued_receipts@.contains_key(t) && self.issued_receipts@[t] is Rejected ==> rejected_call(self.bitcoin_cli.calls, t)
    }
