    pub open spec fn calls(&self) -> Seq<(Transaction, SendReply)> { self.bitcoin_cli.calls }
    pub open spec fn receipts(&self) -> Map<Txid, ConfirmationStatus> { self.issued_receipts@ }
    // memoised verdicts come from `send_transaction`, which never answers ConfirmedIn
    pub open spec fn wf(&self) -> bool {
        forall|t: Txid| #[trigger] self.issued_receipts@.contains_key(t) ==> !(self.issued_receipts@[t] matches ConfirmationStatus::ConfirmedIn(_))
    }
