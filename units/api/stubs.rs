// ---------------- TRUSTED stand-ins: tonic / warp / prost-generated message types ----------------
// transcribed from teos-common/proto/common/teos/v2/{appointment,user}.proto (field names and types as prost generates them)
pub mod common_msgs {
    use super::*;
    pub struct RegisterRequest { pub user_id: Vec<u8> }
    pub struct RegisterResponse { pub user_id: Vec<u8>, pub available_slots: u32, pub subscription_start: u32, pub subscription_expiry: u32, pub subscription_signature: String }
    pub struct Appointment { pub locator: Vec<u8>, pub encrypted_blob: Vec<u8>, pub to_self_delay: u32 }
    pub struct Tracker { pub dispute_txid: Vec<u8>, pub penalty_txid: Vec<u8>, pub penalty_rawtx: Vec<u8> }
    pub mod appointment_data { pub enum AppointmentData { Appointment(super::Appointment), Tracker(super::Tracker) } }
    pub struct AppointmentData { pub appointment_data: Option<appointment_data::AppointmentData> }
    pub struct AddAppointmentRequest { pub appointment: Option<Appointment>, pub signature: String }
    pub struct AddAppointmentResponse { pub locator: Vec<u8>, pub start_block: u32, pub signature: String, pub available_slots: u32, pub subscription_expiry: u32 }
    pub struct GetAppointmentRequest { pub locator: Vec<u8>, pub signature: String }
    pub struct GetAppointmentResponse { pub appointment_data: Option<AppointmentData>, pub status: i32 }
    pub struct GetSubscriptionInfoRequest { pub signature: String }
    pub struct GetSubscriptionInfoResponse { pub available_slots: u32, pub subscription_expiry: u32, pub locators: Vec<Vec<u8>> }
}
pub mod msgs { pub struct NetworkAddress; }
pub struct Trigger;
pub struct Request<T> { pub inner: T }
impl<T> Request<T> { pub fn into_inner(self) -> (r: T) ensures r == self.inner { self.inner } }
pub struct Response<T> { pub inner: T }
impl<T> Response<T> {
    pub fn new(t: T) -> (r: Self) ensures r.inner == t { Response { inner: t } }
    pub fn into_inner(self) -> (r: T) ensures r == self.inner { self.inner }
}
#[derive(Clone, Copy, PartialEq, Eq)]
pub enum Code { Ok, Cancelled, Unknown, InvalidArgument, DeadlineExceeded, NotFound, AlreadyExists, PermissionDenied, ResourceExhausted,
                FailedPrecondition, Aborted, OutOfRange, Unimplemented, Internal, Unavailable, DataLoss, Unauthenticated }
pub struct Status { pub code: Code, pub ghost msg: Seq<char> }
impl Status {
    #[verifier::external_body]
    pub fn new<M>(code: Code, message: M) -> (r: Status) ensures r.code == code { unimplemented!() }
    pub fn code(&self) -> (r: Code) ensures r == self.code { self.code }
    #[verifier::external_body]
    pub fn message(&self) -> (r: &str) { unimplemented!() }
}
pub mod tonic { pub use super::{Code, Status, Response, Request}; }

// (de)serialisation stubs used by the handlers
pub uninterp spec fn user_id_of_bytes(data: Seq<u8>) -> Option<UserId>;
pub uninterp spec fn locator_of_bytes(data: Seq<u8>) -> Locator;
impl UserId {
    #[verifier::external_body]
    pub fn from_slice(data: &[u8]) -> (r: Result<UserId, Secp256k1Error>)
        ensures match r { Ok(u) => user_id_of_bytes(data@) == Some(u), Err(_) => user_id_of_bytes(data@) is None }
    { unimplemented!() }
}

impl Locator {
    // byte-level version proved in the `wire` unit: Ok <=> the slice has 16 bytes
    #[verifier::external_body]
    pub fn from_slice(data: &[u8]) -> (r: Result<Locator, TryFromSliceError>)
        ensures r is Ok <==> data@.len() == 16, r matches Ok(l) ==> l == locator_of_bytes(data@)
    { unimplemented!() }
    #[verifier::external_body]
    pub fn to_vec(&self) -> (r: Vec<u8>) ensures r@.len() == 16 { unimplemented!() }
}
impl Appointment {
    #[verifier::external_body]
    pub fn new(locator: Locator, encrypted_blob: Vec<u8>, to_self_delay: u32) -> (r: Appointment)
        ensures r.locator == locator && r.encrypted_blob == encrypted_blob && r.to_self_delay == to_self_delay
    { unimplemented!() }
}
#[verifier::external_body]
pub fn appointment_into_msg(a: Appointment) -> (r: common_msgs::Appointment)
    ensures r.encrypted_blob@ == a.encrypted_blob@ && r.to_self_delay == a.to_self_delay && r.locator@.len() == 16
{ unimplemented!() }
#[verifier::external_body]
pub fn tracker_into_msg(t: TransactionTracker) -> (r: common_msgs::Tracker) { unimplemented!() }
#[verifier::external_body]
pub fn locators_to_vecs(v: &Vec<Locator>) -> (r: Vec<Vec<u8>>) ensures r@.len() == v@.len() { unimplemented!() }
#[verifier::external_body]
pub fn fmt_u32(lit: &str, x: u32) -> (r: String) { unimplemented!() }
impl RegistrationReceipt {
    pub fn available_slots(&self) -> (r: u32) ensures r == self.available_slots { self.available_slots }
    pub fn subscription_start(&self) -> (r: u32) ensures r == self.subscription_start { self.subscription_start }
    pub fn subscription_expiry(&self) -> (r: u32) ensures r == self.subscription_expiry { self.subscription_expiry }
    #[verifier::external_body]
    pub fn signature(&self) -> (r: Option<String>) ensures r == self.signature { unimplemented!() }
}
impl AppointmentReceipt {
    pub fn start_block(&self) -> (r: u32) ensures r == self.start_block { self.start_block }
    #[verifier::external_body]
    pub fn signature(&self) -> (r: Option<String>) ensures r == self.signature { unimplemented!() }
}
//@ extract teos-common/src/appointment.rs :: enum AppointmentStatus
//@ end
