// ---------------- TRUSTED stand-ins: warp reply/rejection types and the generated gRPC client ----------------
//@ include prelude/errors_mod.inc
//@ extract teos-common/src/lib.rs :: const USER_ID_LEN
//@ end
//@ extract teos-common/src/appointment.rs :: const LOCATOR_LEN
//@ end
#[derive(Clone, Copy, PartialEq, Eq)]
pub struct StatusCode(pub u16);
impl StatusCode {
    pub const OK: StatusCode = StatusCode(200);
    pub const BAD_REQUEST: StatusCode = StatusCode(400);
    pub const UNAUTHORIZED: StatusCode = StatusCode(401);
    pub const NOT_FOUND: StatusCode = StatusCode(404);
    pub const SERVICE_UNAVAILABLE: StatusCode = StatusCode(503);
}
pub struct SocketAddr;
pub struct Channel;
pub mod serde { pub trait Serialize {} }
impl serde::Serialize for common_msgs::RegisterResponse {}
impl serde::Serialize for common_msgs::AddAppointmentResponse {}
impl serde::Serialize for common_msgs::GetAppointmentResponse {}
impl serde::Serialize for common_msgs::GetSubscriptionInfoResponse {}
// a rejection produced by a validator: carries the documented error code (ghost view of ApiError.error_code)
pub struct Rejection { pub ghost error_code: u8 }
// the JSON body of a reply: ghost error code (255 = catch-all `unexpected error`; 0 for a success body)
pub mod reply {
    use super::*;
    pub struct Json { pub ghost error_code: u8 }
    pub struct WithStatus { pub body: Json, pub status: StatusCode }
    #[verifier::external_body]
    pub fn json_ok<T: serde::Serialize>(t: &T) -> (r: Json) ensures r.error_code == 0 { unimplemented!() }
    #[verifier::external_body]
    pub fn json_err(e: &ApiError) -> (r: Json) ensures r.error_code == e.error_code { unimplemented!() }
    pub fn with_status(body: Json, status: StatusCode) -> (r: WithStatus) ensures r.body == body && r.status == status { WithStatus { body, status } }
}
pub trait Reply {}
impl Reply for reply::WithStatus {}
pub struct ApiError { pub error: String, pub error_code: u8 }
impl ApiError {
    #[verifier::external_body]
    pub fn new<M>(error: M, error_code: u8) -> (r: ApiError) ensures r.error_code == error_code { unimplemented!() }
    // ApiError::{missing_field, empty_field, wrong_field_length}: `reject::custom(Self::new(format!(..), errors::X))`
    #[verifier::external_body]
    pub fn missing_field(field_name: &str) -> (r: Rejection) ensures r.error_code == 1 { unimplemented!() }
    #[verifier::external_body]
    pub fn empty_field(field_name: &str) -> (r: Rejection) ensures r.error_code == 2 { unimplemented!() }
    #[verifier::external_body]
    pub fn wrong_field_length(field_name: &str, field_size: usize, expected_size: usize) -> (r: Rejection) ensures r.error_code == 4 { unimplemented!() }
}
// the tonic client generated for PublicTowerServices: each method *requires* what the internal handler requires of its
// request and *ensures* what the internal handler ensures about error codes (both proved in this unit on the real handlers)
pub struct PublicTowerServicesClient<C> { pub c: C, pub ghost calls: nat }
impl<C> PublicTowerServicesClient<C> {
    #[verifier::external_body]
    pub fn register(&mut self, req: common_msgs::RegisterRequest) -> (r: Result<Response<common_msgs::RegisterResponse>, Status>)
        ensures final(self).calls == old(self).calls + 1, r matches Err(s) ==> documented_code(s.code)
    { unimplemented!() }
    #[verifier::external_body]
    pub fn add_appointment(&mut self, req: common_msgs::AddAppointmentRequest) -> (r: Result<Response<common_msgs::AddAppointmentResponse>, Status>)
        requires add_appointment_req_ok(req)
        ensures final(self).calls == old(self).calls + 1, r matches Err(s) ==> documented_code(s.code)
    { unimplemented!() }
    #[verifier::external_body]
    pub fn get_appointment(&mut self, req: common_msgs::GetAppointmentRequest) -> (r: Result<Response<common_msgs::GetAppointmentResponse>, Status>)
        requires get_appointment_req_ok(req)
        ensures final(self).calls == old(self).calls + 1, r matches Err(s) ==> documented_code(s.code)
    { unimplemented!() }
    #[verifier::external_body]
    pub fn get_subscription_info(&mut self, req: common_msgs::GetSubscriptionInfoRequest) -> (r: Result<Response<common_msgs::GetSubscriptionInfoResponse>, Status>)
        ensures final(self).calls == old(self).calls + 1, r matches Err(s) ==> documented_code(s.code)
    { unimplemented!() }
}
// documented HTTP statuses and error codes
pub open spec fn documented_reply(status: StatusCode, error_code: u8) -> bool {
    (status.0 == 400 || status.0 == 401 || status.0 == 404 || status.0 == 503) && error_code != 255 && error_code != 0
}
