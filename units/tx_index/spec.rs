// ---------------- spec: abstract view of the index + lemmas (ghost, checked by Verus) ----------------
pub open spec fn keys_at<K>(blocks: Seq<BlockHash>, tib: Map<BlockHash, Vec<K>>, i: int) -> Set<K> {
    tib[blocks[i]]@.to_set()
}

pub open spec fn inv_core<K, V>(blocks: Seq<BlockHash>, tib: Map<BlockHash, Vec<K>>, index: Map<K, V>) -> bool {
    &&& blocks.no_duplicates()
    &&& tib.dom() =~= blocks.to_set()
    &&& (forall|k: K| #[trigger] index.contains_key(k) <==>
            exists|i: int| 0 <= i < blocks.len() && #[trigger] keys_at(blocks, tib, i).contains(k))
    &&& (forall|i: int, j: int| 0 <= i < j < blocks.len() ==> #[trigger] keys_at(blocks, tib, i).disjoint(#[trigger] keys_at(blocks, tib, j)))
}


// one step of `for (k, v) in map.iter()`: the keys not yet visited shrink by exactly the visited key
pub proof fn lemma_iter_step<K, V>(data: Map<K, V>, s: Seq<(&K, &V)>, idx: int, ks0: Seq<K>, ks1: Seq<K>, k: K)
    requires
        0 <= idx < s.len(),
        *s[idx].0 == k,
        ks1 == ks0.push(k),
        ks0.len() == idx,
        forall|x: K| data.contains_key(x) ==> ks0.contains(x) || exists|j: int| idx <= j < s.len() && *s[j].0 == x,
    ensures
        forall|x: K| data.contains_key(x) ==> ks1.contains(x) || exists|j: int| idx + 1 <= j < s.len() && *s[j].0 == x,
{
    assert forall|x: K| data.contains_key(x) implies ks1.contains(x) || exists|j: int| idx + 1 <= j < s.len() && *s[j].0 == x by {
        if ks0.contains(x) {
            let i = choose|i: int| 0 <= i < ks0.len() && ks0[i] == x;
            assert(ks1[i] == x);
        } else {
            let j = choose|j: int| idx <= j < s.len() && *s[j].0 == x;
            if j == idx { assert(ks1[idx] == x); }
        }
    }
}

pub proof fn lemma_push_block<K, V>(blocks: Seq<BlockHash>, tib: Map<BlockHash, Vec<K>>, index: Map<K, V>, h: BlockHash, ks: Vec<K>, index2: Map<K, V>)
    requires
        inv_core(blocks, tib, index),
        !blocks.contains(h),
        forall|k: K| ks@.contains(k) ==> !index.contains_key(k),
        index2.dom() =~= index.dom() + ks@.to_set(),
    ensures
        inv_core(blocks.push(h), tib.insert(h, ks), index2),
        forall|i: int| 0 <= i < blocks.len() ==> #[trigger] keys_at(blocks.push(h), tib.insert(h, ks), i) == keys_at(blocks, tib, i),
        keys_at(blocks.push(h), tib.insert(h, ks), blocks.len() as int) == ks@.to_set(),
{
    let b2 = blocks.push(h);
    let t2 = tib.insert(h, ks);
    assert forall|i: int| 0 <= i < blocks.len() implies #[trigger] keys_at(b2, t2, i) == keys_at(blocks, tib, i) by {
        assert(b2[i] == blocks[i]);
        assert(blocks.contains(blocks[i]));
        assert(blocks[i] != h);
    }
    assert(b2[blocks.len() as int] == h);
    assert(keys_at(b2, t2, blocks.len() as int) == ks@.to_set());
    assert(b2.no_duplicates());
    assert(t2.dom() =~= b2.to_set()) by {
        assert forall|x: BlockHash| t2.dom().contains(x) <==> b2.to_set().contains(x) by {
            lemma_push_contains(blocks, h);
            assert(tib.dom().contains(x) <==> blocks.to_set().contains(x));
        }
    }
    assert forall|k: K| #[trigger] index2.contains_key(k) <==>
            exists|i: int| 0 <= i < b2.len() && #[trigger] keys_at(b2, t2, i).contains(k) by {
        if index2.contains_key(k) {
            if index.contains_key(k) {
                let i = choose|i: int| 0 <= i < blocks.len() && #[trigger] keys_at(blocks, tib, i).contains(k);
                assert(keys_at(b2, t2, i).contains(k));
            } else {
                assert(ks@.to_set().contains(k));
                assert(keys_at(b2, t2, blocks.len() as int).contains(k));
            }
        }
        if exists|i: int| 0 <= i < b2.len() && #[trigger] keys_at(b2, t2, i).contains(k) {
            let i = choose|i: int| 0 <= i < b2.len() && #[trigger] keys_at(b2, t2, i).contains(k);
            if i < blocks.len() {
                assert(keys_at(blocks, tib, i).contains(k));
                assert(index.contains_key(k));
            } else {
                assert(ks@.to_set().contains(k));
            }
        }
    }
    assert forall|i: int, j: int| 0 <= i < j < b2.len() implies #[trigger] keys_at(b2, t2, i).disjoint(#[trigger] keys_at(b2, t2, j)) by {
        if j < blocks.len() {
            assert(keys_at(blocks, tib, i).disjoint(keys_at(blocks, tib, j)));
        } else {
            assert forall|k: K| keys_at(b2, t2, i).contains(k) implies !keys_at(b2, t2, j).contains(k) by {
                assert(keys_at(blocks, tib, i).contains(k));
                assert(index.contains_key(k));
                assert(!ks@.contains(k));
            }
        }
    }
}

pub proof fn lemma_pop_front<K, V>(blocks: Seq<BlockHash>, tib: Map<BlockHash, Vec<K>>, index: Map<K, V>)
    requires
        inv_core(blocks, tib, index),
        blocks.len() > 0,
    ensures
        inv_core(blocks.subrange(1, blocks.len() as int), tib.remove(blocks[0]), index.remove_keys(keys_at(blocks, tib, 0))),
        forall|i: int| 0 <= i < blocks.len() - 1 ==> #[trigger] keys_at(blocks.subrange(1, blocks.len() as int), tib.remove(blocks[0]), i) == keys_at(blocks, tib, i + 1),
{
    let b2 = blocks.subrange(1, blocks.len() as int);
    let t2 = tib.remove(blocks[0]);
    let i2 = index.remove_keys(keys_at(blocks, tib, 0));
    assert forall|i: int| 0 <= i < b2.len() implies #[trigger] keys_at(b2, t2, i) == keys_at(blocks, tib, i + 1) by {
        assert(b2[i] == blocks[i + 1]);
        assert(blocks[i + 1] != blocks[0]);
    }
    assert(b2.no_duplicates());
    assert(t2.dom() =~= b2.to_set()) by {
        assert forall|x: BlockHash| t2.dom().contains(x) <==> b2.to_set().contains(x) by {
            if t2.dom().contains(x) {
                assert(blocks.to_set().contains(x));
                let i = choose|i: int| 0 <= i < blocks.len() && blocks[i] == x;
                assert(i != 0);
                assert(b2[i - 1] == x);
            }
            if b2.to_set().contains(x) {
                let i = choose|i: int| 0 <= i < b2.len() && b2[i] == x;
                assert(blocks[i + 1] == x);
                assert(blocks.contains(x));
            }
        }
    }
    assert forall|k: K| #[trigger] i2.contains_key(k) <==>
            exists|i: int| 0 <= i < b2.len() && #[trigger] keys_at(b2, t2, i).contains(k) by {
        if i2.contains_key(k) {
            assert(index.contains_key(k) && !keys_at(blocks, tib, 0).contains(k));
            let i = choose|i: int| 0 <= i < blocks.len() && #[trigger] keys_at(blocks, tib, i).contains(k);
            assert(i != 0);
            assert(keys_at(b2, t2, i - 1).contains(k));
        }
        if exists|i: int| 0 <= i < b2.len() && #[trigger] keys_at(b2, t2, i).contains(k) {
            let i = choose|i: int| 0 <= i < b2.len() && #[trigger] keys_at(b2, t2, i).contains(k);
            assert(keys_at(blocks, tib, i + 1).contains(k));
            assert(keys_at(blocks, tib, 0).disjoint(keys_at(blocks, tib, i + 1)));
            assert(index.contains_key(k));
        }
    }
    assert forall|i: int, j: int| 0 <= i < j < b2.len() implies #[trigger] keys_at(b2, t2, i).disjoint(#[trigger] keys_at(b2, t2, j)) by {
        assert(keys_at(blocks, tib, i + 1).disjoint(keys_at(blocks, tib, j + 1)));
    }
}

pub proof fn lemma_pop_back<K, V>(blocks: Seq<BlockHash>, tib: Map<BlockHash, Vec<K>>, index: Map<K, V>)
    requires
        inv_core(blocks, tib, index),
        blocks.len() > 0,
    ensures
        inv_core(blocks.drop_last(), tib.remove(blocks.last()), index.remove_keys(keys_at(blocks, tib, blocks.len() - 1))),
        forall|i: int| 0 <= i < blocks.len() - 1 ==> #[trigger] keys_at(blocks.drop_last(), tib.remove(blocks.last()), i) == keys_at(blocks, tib, i),
{
    let n = blocks.len() as int;
    let b2 = blocks.drop_last();
    let t2 = tib.remove(blocks.last());
    let i2 = index.remove_keys(keys_at(blocks, tib, n - 1));
    assert forall|i: int| 0 <= i < b2.len() implies #[trigger] keys_at(b2, t2, i) == keys_at(blocks, tib, i) by {
        assert(b2[i] == blocks[i]);
        assert(blocks[i] != blocks[n - 1]);
    }
    assert(b2.no_duplicates());
    assert(t2.dom() =~= b2.to_set()) by {
        assert forall|x: BlockHash| t2.dom().contains(x) <==> b2.to_set().contains(x) by {
            if t2.dom().contains(x) {
                assert(blocks.to_set().contains(x));
                let i = choose|i: int| 0 <= i < blocks.len() && blocks[i] == x;
                assert(i != n - 1);
                assert(b2[i] == x);
            }
            if b2.to_set().contains(x) {
                let i = choose|i: int| 0 <= i < b2.len() && b2[i] == x;
                assert(blocks[i] == x);
                assert(blocks.contains(x));
            }
        }
    }
    assert forall|k: K| #[trigger] i2.contains_key(k) <==>
            exists|i: int| 0 <= i < b2.len() && #[trigger] keys_at(b2, t2, i).contains(k) by {
        if i2.contains_key(k) {
            let i = choose|i: int| 0 <= i < blocks.len() && #[trigger] keys_at(blocks, tib, i).contains(k);
            assert(i != n - 1);
            assert(keys_at(b2, t2, i).contains(k));
        }
        if exists|i: int| 0 <= i < b2.len() && #[trigger] keys_at(b2, t2, i).contains(k) {
            let i = choose|i: int| 0 <= i < b2.len() && #[trigger] keys_at(b2, t2, i).contains(k);
            assert(keys_at(blocks, tib, i).contains(k));
            assert(keys_at(blocks, tib, i).disjoint(keys_at(blocks, tib, n - 1)));
            assert(index.contains_key(k));
        }
    }
    assert forall|i: int, j: int| 0 <= i < j < b2.len() implies #[trigger] keys_at(b2, t2, i).disjoint(#[trigger] keys_at(b2, t2, j)) by {
        assert(keys_at(blocks, tib, i).disjoint(keys_at(blocks, tib, j)));
    }
}

