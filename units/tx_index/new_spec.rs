// ---- stand-ins for the block types TxIndex::new consumes (bitcoin::Block, lightning_block_sync::{BlockData, ValidatedBlock}) ----
pub struct Block { pub header: Header, pub txdata: Vec<Transaction> }
pub enum BlockData { HeaderOnly(Header), FullBlock(Block) }
pub mod lightning_block_sync { pub use super::BlockData; }
pub struct ValidatedBlock { pub inner: BlockData }
impl ValidatedBlock {
    pub fn deref(&self) -> (r: &BlockData) ensures *r == self.inner { &self.inner }
}
// the keys a block contributes to an index with key type K: K::from_txid over the ids of its transactions
pub open spec fn keys_seq<K: Key>(b: Block) -> Seq<K> { b.txdata@.map_values(|tx: Transaction| K::from_txid_spec(txid_spec(tx))) }
pub open spec fn block_keys<K: Key>(b: Block) -> Set<K> { keys_seq::<K>(b).to_set() }
pub proof fn lemma_block_keys<K: Key>(b: Block, k: K)
    ensures block_keys::<K>(b).contains(k) <==> exists|i: int| 0 <= i < b.txdata@.len() && k == K::from_txid_spec(txid_spec(#[trigger] b.txdata@[i]))
{
    let ks = keys_seq::<K>(b);
    assert(ks.len() == b.txdata@.len());
    if block_keys::<K>(b).contains(k) {
        assert(ks.contains(k));
        let i = choose|i: int| 0 <= i < ks.len() && ks[i] == k;
        assert(k == K::from_txid_spec(txid_spec(b.txdata@[i])));
    }
    if exists|i: int| 0 <= i < b.txdata@.len() && k == K::from_txid_spec(txid_spec(#[trigger] b.txdata@[i])) {
        let i = choose|i: int| 0 <= i < b.txdata@.len() && k == K::from_txid_spec(txid_spec(#[trigger] b.txdata@[i]));
        assert(ks[i] == k);
        assert(ks.contains(k));
    }
}
// the value stored for a transaction of a block: the transaction itself or the block's hash, depending on the value type
pub open spec fn value_of<V: Value>(tx: Transaction, h: BlockHash) -> V {
    if V::type_spec() is Transaction { V::of_data(Data::Transaction(tx)) } else { V::of_data(Data::BlockHash(h)) }
}
