// TRUSTED helper (site rewrite in get_height): `q.iter().position(|x| x == y)`
#[verifier::external_body]
pub fn position_eq(q: &VecDeque<BlockHash>, y: &BlockHash) -> (r: Option<usize>)
    ensures
        match r {
            Some(i) => i < q@.len() && q@[i as int] == *y && forall|j: int| 0 <= j < i ==> q@[j] != *y,
            None => forall|j: int| 0 <= j < q@.len() ==> q@[j] != *y,
        }
{
    q.iter().position(|x| x == y)
}

// TRUSTED: `<[K]>::contains` agrees with spec equality for index keys (K: Eq, structural)
#[verifier::external_body]
pub fn vec_contains<K: PartialEq>(ks: &Vec<K>, k: &K) -> (r: bool)
    ensures r == ks@.contains(*k)
{
    ks.contains(k)
}



// ---- stand-ins for the block types TxIndex::new consumes (bitcoin::Block, lightning_block_sync::{BlockData, ValidatedBlock}) ----
pub struct Block { pub header: Header, pub txdata: Vec<Transaction> }
pub enum BlockData { HeaderOnly(Header), FullBlock(Block) }
pub mod lightning_block_sync { pub use super::BlockData; }
pub struct ValidatedBlock { pub inner: BlockData }
impl ValidatedBlock {
    pub fn deref(&self) -> (r: &BlockData) ensures *r == self.inner { &self.inner }
}
// the keys a block contributes to an index with key type K (K::from_txid over its transactions): uninterpreted
pub uninterp spec fn block_keys<K>(b: Block) -> Set<K>;
// TRUSTED (rule E12): `block.txdata.iter().map(|tx| (K::from_txid(tx.compute_txid()), V::from_data(..))).collect()`;
// only the key set matters to the index structure, the values are whatever Value::from_data builds
#[verifier::external_body]
pub fn block_entries<K: Key, V>(block: &Block) -> (r: HashMap<K, V>)
    ensures r@.dom() =~= block_keys::<K>(*block), r@.dom().finite(),
{ unimplemented!() }
