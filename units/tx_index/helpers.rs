// TRUSTED helper (site rewrite in get_height): `q.iter().position(|x| x == y)`
#[verifier::external_body]
pub fn position_eq(q: &VecDeque<BlockHash>, y: &BlockHash) -> (r: Option<usize>)
    ensures
        match r {
            Some(i) => i < q@.len() && q@[i as int] == *y && forall|j: int| 0 <= j < i ==> q@[j] != *y,
            None => forall|j: int| 0 <= j < q@.len() ==> q@[j] != *y,
        }
{
    q.iter().position(|x| x == y)
}

// TRUSTED: `<[K]>::contains` agrees with spec equality for index keys (K: Eq, structural)
#[verifier::external_body]
pub fn vec_contains<K: PartialEq>(ks: &Vec<K>, k: &K) -> (r: bool)
    ensures r == ks@.contains(*k)
{
    ks.contains(k)
}
