    // keys contributed by the i-th block of the window
    pub open spec fn keys_of(&self, i: int) -> Set<K> {
        keys_at(self.blocks@, self.tx_in_block@, i)
    }

    // Ghost meaning of `tip`: `tip` is the height of the newest block *when the window is full*;
    // with `size - len` slots free the newest block is that many blocks lower.  This is the only
    // reading under which `new` (tip = final height while the window fills up) and `update`
    // (tip += 1 only when a block is evicted) are both correct.
    pub open spec fn back_height(&self) -> int {
        self.tip as int - (self.size as int - self.blocks@.len() as int)
    }
    pub open spec fn height_of(&self, i: int) -> int {
        self.back_height() - (self.blocks@.len() as int - 1 - i)
    }

    // structural invariant (independent of the size bound)
    pub open spec fn inv(&self) -> bool {
        &&& obeys_key_model::<K>()
        &&& inv_core(self.blocks@, self.tx_in_block@, self.index@)
    }

    pub open spec fn wf(&self) -> bool {
        &&& self.inv()
        &&& self.blocks@.len() <= self.size
        &&& self.tip as int + 1 >= self.size as int     // the oldest covered block has height >= 0
    }

