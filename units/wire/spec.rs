// ---------------- wire/signing layouts as spec functions (C08, C16, C17) ----------------
pub uninterp spec fn pk_bytes(pk: PublicKey) -> Seq<u8>;       // 33-byte compressed encoding
pub broadcast proof fn axiom_pk_bytes(pk: PublicKey)
    ensures #[trigger] pk_bytes(pk).len() == 33
{ admit(); }
pub broadcast proof fn axiom_pk_bytes_injective(a: PublicKey, b: PublicKey)
    requires #[trigger] pk_bytes(a) == #[trigger] pk_bytes(b)
    ensures a == b
{ admit(); }

// Appointment::to_vec : locator || encrypted_blob || to_self_delay (big endian)
pub open spec fn appointment_bytes(locator: Seq<u8>, blob: Seq<u8>, to_self_delay: u32) -> Seq<u8> {
    locator + blob + be_bytes(to_self_delay)
}
// RegistrationReceipt::to_vec : user_id || available_slots || subscription_start || subscription_expiry
pub open spec fn registration_receipt_bytes(user: PublicKey, slots: u32, start: u32, expiry: u32) -> Seq<u8> {
    pk_bytes(user) + be_bytes(slots) + be_bytes(start) + be_bytes(expiry)
}
// AppointmentReceipt::to_vec : user_signature (utf-8) || start_block
pub open spec fn appointment_receipt_bytes(user_signature: Seq<char>, start_block: u32) -> Seq<u8> {
    str_bytes(user_signature) + be_bytes(start_block)
}

// ---- C16: the byte strings that get signed determine their fields uniquely ----
pub proof fn lemma_appointment_bytes_injective(l1: Seq<u8>, b1: Seq<u8>, d1: u32, l2: Seq<u8>, b2: Seq<u8>, d2: u32)
    requires l1.len() == 16, l2.len() == 16, appointment_bytes(l1, b1, d1) == appointment_bytes(l2, b2, d2)
    ensures l1 == l2, b1 == b2, d1 == d2
{
    let s1 = appointment_bytes(l1, b1, d1); let s2 = appointment_bytes(l2, b2, d2);
    assert(s1.len() == 16 + b1.len() + 4 && s2.len() == 16 + b2.len() + 4);
    assert(b1.len() == b2.len());
    assert(l1 =~= s1.subrange(0, 16));
    assert(l2 =~= s2.subrange(0, 16));
    assert(b1 =~= s1.subrange(16, 16 + b1.len() as int));
    assert(b2 =~= s2.subrange(16, 16 + b2.len() as int));
    assert(be_bytes(d1) =~= s1.subrange(16 + b1.len() as int, s1.len() as int));
    assert(be_bytes(d2) =~= s2.subrange(16 + b2.len() as int, s2.len() as int));
    lemma_be_bytes_injective(d1, d2);
}
pub proof fn lemma_registration_receipt_bytes_injective(u1: PublicKey, a1: u32, s1: u32, e1: u32, u2: PublicKey, a2: u32, s2: u32, e2: u32)
    requires registration_receipt_bytes(u1, a1, s1, e1) == registration_receipt_bytes(u2, a2, s2, e2)
    ensures u1 == u2, a1 == a2, s1 == s2, e1 == e2
{
    broadcast use axiom_pk_bytes, axiom_pk_bytes_injective;
    let x = registration_receipt_bytes(u1, a1, s1, e1); let y = registration_receipt_bytes(u2, a2, s2, e2);
    assert(pk_bytes(u1) =~= x.subrange(0, 33)); assert(pk_bytes(u2) =~= y.subrange(0, 33));
    assert(be_bytes(a1) =~= x.subrange(33, 37)); assert(be_bytes(a2) =~= y.subrange(33, 37));
    assert(be_bytes(s1) =~= x.subrange(37, 41)); assert(be_bytes(s2) =~= y.subrange(37, 41));
    assert(be_bytes(e1) =~= x.subrange(41, 45)); assert(be_bytes(e2) =~= y.subrange(41, 45));
    lemma_be_bytes_injective(a1, a2); lemma_be_bytes_injective(s1, s2); lemma_be_bytes_injective(e1, e2);
}
pub proof fn lemma_appointment_receipt_bytes_injective(g1: Seq<char>, b1: u32, g2: Seq<char>, b2: u32)
    requires appointment_receipt_bytes(g1, b1) == appointment_receipt_bytes(g2, b2)
    ensures g1 == g2, b1 == b2
{
    let x = appointment_receipt_bytes(g1, b1); let y = appointment_receipt_bytes(g2, b2);
    let n1 = str_bytes(g1).len() as int; let n2 = str_bytes(g2).len() as int;
    assert(x.len() == n1 + 4 && y.len() == n2 + 4);
    assert(str_bytes(g1) =~= x.subrange(0, n1)); assert(str_bytes(g2) =~= y.subrange(0, n2));
    assert(be_bytes(b1) =~= x.subrange(n1, n1 + 4)); assert(be_bytes(b2) =~= y.subrange(n2, n2 + 4));
    lemma_str_bytes_injective(g1, g2);
    lemma_be_bytes_injective(b1, b2);
}
// ---- C08/C17: a receipt signed by the tower key verifies under the tower id ----
pub proof fn lemma_sign_verifies(msg: Seq<u8>, sk: SecretKey)
    ensures recover_spec(msg, sign_spec(msg, sk)) == Some(pk_of(sk))
{
    broadcast use axiom_sign_recover;
}
