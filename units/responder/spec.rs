// ---------------- spec of the Responder ----------------
// C04: a tracker is complete (to be forgotten, slots refunded) exactly when its penalty is confirmed, not awaiting a
// reorg replay, not (re)confirmed in this very block, and buried IRREVOCABLY_RESOLVED (100) blocks deep
pub open spec fn completed_at(trackers: Map<UUID, TrackerRow>, reorged: Set<UUID>, txids: Set<Txid>, current_height: u32, u: UUID) -> bool {
    &&& trackers.contains_key(u)
    &&& !txids.contains(txid_spec(trackers[u].penalty_tx))
    &&& !reorged.contains(u)
    &&& trackers[u].confirmed
    &&& current_height as int - trackers[u].height as int == 100
}

// the element a `for (k, v) in map.iter()` loop is looking at has not been seen before
pub proof fn lemma_iter_fresh<K, V>(m: Map<K, V>, s: Seq<(&K, &V)>, idx: int)
    requires
        0 <= idx < s.len(),
        s.no_duplicates(),
        forall|i: int| 0 <= i < s.len() ==> m.contains_key(*#[trigger] s[i].0) && m[*s[i].0] == *s[i].1,
    ensures
        forall|j: int| 0 <= j < idx ==> *(#[trigger] s[j]).0 != *s[idx].0,
{
    assert forall|j: int| 0 <= j < idx implies *(#[trigger] s[j]).0 != *s[idx].0 by {
        if *s[j].0 == *s[idx].0 {
            assert(*s[j].1 == *s[idx].1);
            assert(s[j] == s[idx]);
        }
    }
}

// one step of `for (k, v) in map.iter()` with a ghost set of visited keys
pub proof fn lemma_iter_step_set<K, V>(m: Map<K, V>, s: Seq<(&K, &V)>, idx: int, visited: Set<K>, k: K)
    requires
        0 <= idx < s.len(),
        *s[idx].0 == k,
        forall|x: K| m.contains_key(x) ==> visited.contains(x) || exists|j: int| idx <= j < s.len() && *s[j].0 == x,
    ensures
        forall|x: K| m.contains_key(x) ==> visited.insert(k).contains(x) || exists|j: int| idx + 1 <= j < s.len() && *s[j].0 == x,
{
    assert forall|x: K| m.contains_key(x) implies visited.insert(k).contains(x) || exists|j: int| idx + 1 <= j < s.len() && *s[j].0 == x by {
        if !visited.contains(x) {
            let j = choose|j: int| idx <= j < s.len() && *s[j].0 == x;
            if j == idx { assert(x == k); }
        }
    }
}
