// ---------------- spec of the Responder ----------------
// C04: a tracker is complete (to be forgotten, slots refunded) exactly when its penalty is confirmed, not awaiting a
// reorg replay, not (re)confirmed in this very block, and buried IRREVOCABLY_RESOLVED (100) blocks deep
pub open spec fn completed_at(trackers: Map<UUID, TrackerRow>, reorged: Set<UUID>, txids: Set<Txid>, current_height: u32, u: UUID) -> bool {
    &&& trackers.contains_key(u)
    &&& !txids.contains(txid_spec(trackers[u].penalty_tx))
    &&& !reorged.contains(u)
    &&& trackers[u].confirmed
    &&& current_height as int - trackers[u].height as int == 100
}

// the element a `for (k, v) in map.iter()` loop is looking at has not been seen before
pub proof fn lemma_iter_fresh<K, V>(m: Map<K, V>, s: Seq<(&K, &V)>, idx: int)
    requires
        0 <= idx < s.len(),
        s.no_duplicates(),
        forall|i: int| 0 <= i < s.len() ==> m.contains_key(*#[trigger] s[i].0) && m[*s[i].0] == *s[i].1,
    ensures
        forall|j: int| 0 <= j < idx ==> *(#[trigger] s[j]).0 != *s[idx].0,
{
    assert forall|j: int| 0 <= j < idx implies *(#[trigger] s[j]).0 != *s[idx].0 by {
        if *s[j].0 == *s[idx].0 {
            assert(*s[j].1 == *s[idx].1);
            assert(s[j] == s[idx]);
        }
    }
}

// one step of `for (k, v) in map.iter()` with a ghost set of visited keys
pub proof fn lemma_iter_step_set<K, V>(m: Map<K, V>, s: Seq<(&K, &V)>, idx: int, visited: Set<K>, k: K)
    requires
        0 <= idx < s.len(),
        *s[idx].0 == k,
        forall|x: K| m.contains_key(x) ==> visited.contains(x) || exists|j: int| idx <= j < s.len() && *s[j].0 == x,
    ensures
        forall|x: K| m.contains_key(x) ==> visited.insert(k).contains(x) || exists|j: int| idx + 1 <= j < s.len() && *s[j].0 == x,
{
    assert forall|x: K| m.contains_key(x) implies visited.insert(k).contains(x) || exists|j: int| idx + 1 <= j < s.len() && *s[j].0 == x by {
        if !visited.contains(x) {
            let j = choose|j: int| idx <= j < s.len() && *s[j].0 == x;
            if j == idx { assert(x == k); }
        }
    }
}

// C02: the only transactions a reorg replay may hand to the node: dispute or penalty of a tracker that was flagged as
// reorged and still exists
pub open spec fn is_reorg_tx(trackers: Map<UUID, TrackerRow>, reorged: Set<UUID>, tx: Transaction) -> bool {
    exists|u: UUID| reorged.contains(u) && #[trigger] trackers.contains_key(u) && (tx == trackers[u].dispute_tx || tx == trackers[u].penalty_tx)
}
// C04: the node bounced the dispute or the penalty of this tracker (verdicts as memoised by the Carrier for the block)
pub open spec fn node_rejected(rec: Map<Txid, ConfirmationStatus>, tr: TrackerRow) -> bool {
    (rec.contains_key(txid_spec(tr.dispute_tx)) && rec[txid_spec(tr.dispute_tx)] is Rejected)
    || (rec.contains_key(txid_spec(tr.penalty_tx)) && rec[txid_spec(tr.penalty_tx)] is Rejected)
}
// C04: some submission of this tracker's dispute or penalty was rejected by the node (over the whole submission log)
pub open spec fn node_rejected_in_log(calls: Seq<(Transaction, SendReply)>, tr: TrackerRow) -> bool {
    rejected_call(calls, txid_spec(tr.dispute_tx)) || rejected_call(calls, txid_spec(tr.penalty_tx))
}
// `r1` has every verdict of `r0`, unchanged
pub open spec fn receipts_kept(r0: Map<Txid, ConfirmationStatus>, r1: Map<Txid, ConfirmationStatus>) -> bool {
    forall|t: Txid| #[trigger] r0.contains_key(t) ==> r1.contains_key(t) && r1[t] == r0[t]
}
// `c1` extends `c0` and every appended call carries a transaction satisfying `ok`
pub open spec fn calls_extend(c0: Seq<(Transaction, SendReply)>, c1: Seq<(Transaction, SendReply)>, ok: spec_fn(Transaction) -> bool) -> bool {
    &&& c1.len() >= c0.len()
    &&& c1.subrange(0, c0.len() as int) == c0
    &&& forall|i: int| c0.len() <= i < c1.len() ==> ok((#[trigger] c1[i]).0)
}
pub proof fn lemma_calls_extend_trans(c0: Seq<(Transaction, SendReply)>, c1: Seq<(Transaction, SendReply)>, c2: Seq<(Transaction, SendReply)>, ok: spec_fn(Transaction) -> bool)
    requires calls_extend(c0, c1, ok), calls_extend(c1, c2, ok)
    ensures calls_extend(c0, c2, ok)
{
    assert(c2.subrange(0, c0.len() as int) =~= c0) by {
        assert forall|i: int| 0 <= i < c0.len() implies c2.subrange(0, c0.len() as int)[i] == c0[i] by {
            assert(c2.subrange(0, c1.len() as int)[i] == c1[i]);
            assert(c1.subrange(0, c0.len() as int)[i] == c0[i]);
        }
    }
    assert forall|i: int| c0.len() <= i < c2.len() implies ok((#[trigger] c2[i]).0) by {
        if i < c1.len() {
            assert(c2.subrange(0, c1.len() as int)[i] == c1[i]);
        }
    }
}
// one `Carrier::send_transaction(tx)` extends the log by calls for `tx` only (or not at all when memoised)
pub proof fn lemma_send_extends(c0: Seq<(Transaction, SendReply)>, c1: Seq<(Transaction, SendReply)>, tx: Transaction, ok: spec_fn(Transaction) -> bool)
    requires ok(tx), c1 == c0 || sent_only(c0, c1, tx)
    ensures calls_extend(c0, c1, ok)
{
    if c1 == c0 { assert(c1.subrange(0, c0.len() as int) =~= c0); }
}

// C04 cadence: a penalty is due for rebroadcast at `height` when it has been waiting in the mempool for at least
// CONFIRMATIONS_BEFORE_RETRY (6) blocks
pub open spec fn is_stale(trackers: Map<UUID, TrackerRow>, height: u32, u: UUID) -> bool {
    trackers.contains_key(u) && !trackers[u].confirmed && trackers[u].height as int <= height as int - 6
}
pub open spec fn is_stale_penalty(trackers: Map<UUID, TrackerRow>, height: u32, tx: Transaction) -> bool {
    exists|u: UUID| #[trigger] is_stale(trackers, height, u) && tx == trackers[u].penalty_tx
}

// the ids of the transactions of a connected block
pub open spec fn block_txids(txdata: Seq<(usize, Transaction)>) -> Set<Txid> {
    txdata.map_values(|p: (usize, Transaction)| txid_spec(p.1)).to_set()
}

pub proof fn lemma_block_txids(txdata: Seq<(usize, Transaction)>)
    ensures forall|t: Txid| block_txids(txdata).contains(t) <==> exists|i: int| 0 <= i < txdata.len() && txid_spec(#[trigger] txdata[i].1) == t,
{
    let m = txdata.map_values(|p: (usize, Transaction)| txid_spec(p.1));
    assert forall|t: Txid| block_txids(txdata).contains(t) <==> exists|i: int| 0 <= i < txdata.len() && txid_spec(#[trigger] txdata[i].1) == t by {
        if block_txids(txdata).contains(t) {
            let i = choose|i: int| 0 <= i < m.len() && m[i] == t;
            assert(txid_spec(txdata[i].1) == t);
        }
        if exists|i: int| 0 <= i < txdata.len() && txid_spec(#[trigger] txdata[i].1) == t {
            let i = choose|i: int| 0 <= i < txdata.len() && txid_spec(#[trigger] txdata[i].1) == t;
            assert(m[i] == t);
            assert(m.contains(t));
        }
    }
}
