// TRUSTED helper (site rewrite in handle_reorged_txs): `set.drain().collect::<Vec<_>>()` — HashSet::drain has no vstd spec
#[verifier::external_body]
pub fn drain_to_vec(s: &mut HashSet<UUID>) -> (r: Vec<UUID>)
    ensures
        final(s)@ =~= Set::<UUID>::empty(),
        r@.no_duplicates(),
        forall|u: UUID| r@.contains(u) <==> old(s)@.contains(u),
{
    s.drain().collect()
}
// TRUSTED helper (site rewrite in block_disconnected): `set.extend(vec)` — HashSet::extend has no vstd spec
#[verifier::external_body]
pub fn extend_set(s: &mut HashSet<UUID>, v: Vec<UUID>)
    ensures forall|u: UUID| #![trigger final(s)@.contains(u)] final(s)@.contains(u) <==> (old(s)@.contains(u) || v@.contains(u)),
{
    s.extend(v)
}
// TRUSTED helper (site rewrite in filtered_block_connected): `txs.keys().cloned().collect::<HashSet<_>>()`
#[verifier::external_body]
pub fn key_set(m: &HashMap<Txid, BlockHash>) -> (r: HashSet<Txid>)
    ensures r@ =~= m@.dom(),
{
    m.keys().cloned().collect()
}
// TRUSTED helper (site rewrite in filtered_block_connected): `a.extend(b)` for vectors (Extend over a generic IntoIterator has no vstd spec)
#[verifier::external_body]
pub fn vec_extend(a: &mut Vec<UUID>, b: Vec<UUID>)
    ensures final(a)@ == old(a)@ + b@,
{
    a.extend(b)
}
