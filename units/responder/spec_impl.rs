    pub open spec fn same_but_db(&self, o: &Responder) -> bool {
        self.tx_index == o.tx_index && self.carrier == o.carrier && self.gatekeeper == o.gatekeeper && self.reorged_trackers == o.reorged_trackers
    }
    pub open spec fn idx(&self) -> TxIndex<Txid, BlockHash> { self.tx_index.inner }
    pub open spec fn db(&self) -> DBM { self.dbm.inner }
    pub open spec fn reorged(&self) -> Set<UUID> { self.reorged_trackers.inner@ }

    // every indexed transaction id maps to the hash of the block that contributed it (C19 "maps each to the right block")
    pub open spec fn vals_ok(&self) -> bool {
        forall|i: int, k: Txid| 0 <= i < self.idx().blocks@.len() && #[trigger] self.idx().keys_of(i).contains(k) ==> self.idx().index@[k] == self.idx().blocks@[i]
    }
    // confirmed trackers that are not waiting for a reorg replay are confirmed at or below the tip the index knows
    pub open spec fn heights_ok(&self) -> bool {
        forall|u: UUID| #[trigger] self.db().trackers.contains_key(u) && self.db().trackers[u].confirmed && !self.reorged().contains(u)
            ==> self.db().trackers[u].height as int <= self.idx().back_height()
    }
    pub open spec fn heights_ok_except(&self, ex: Seq<UUID>) -> bool {
        forall|u: UUID| #[trigger] self.db().trackers.contains_key(u) && self.db().trackers[u].confirmed && !self.reorged().contains(u) && !ex.contains(u)
            ==> self.db().trackers[u].height as int <= self.idx().back_height()
    }
    // Responder invariant.  Only facts every component preserves on the shared database may be assumed at
    // an entry point (foreign keys, heights); `reorged ⊆ trackers` is NOT one of them (see finding F12).
    pub open spec fn rinv(&self) -> bool {
        &&& self.idx().wf() && self.idx().size >= 1
        &&& self.vals_ok()
        &&& self.carrier.inner.wf() && self.carrier.inner.rc_ok()
        &&& self.db().fk()
        &&& self.heights_ok()
    }
    // what the Gatekeeper needs from the shared database (its users mirror; blob sizes within the transport limit)
    pub open spec fn gk_ok(&self) -> bool {
        &&& self.gatekeeper.registered_users.inner@ =~= self.db().users
        &&& forall|u: UUID| #[trigger] self.db().appts.contains_key(u) ==> self.db().appts[u].blob.len() <= MAX_BLOB
    }
    // A1 (ledger bound): refunding any set of a user's held appointments cannot overflow their balance
    pub open spec fn ledger_bounded(&self) -> bool {
        forall|list: Seq<UUID>, w: UserId| #![trigger refund_total(self.db().appts, list, w, list.len() as int)]
            list.no_duplicates() && (forall|i: int| 0 <= i < list.len() ==> self.db().appts.contains_key(#[trigger] list[i])) && self.db().users.contains_key(w)
            ==> self.db().users[w].available_slots + refund_total(self.db().appts, list, w, list.len() as int) <= u32::MAX
    }
