pub fn compute_appointment_slots(blob_size: usize, blob_max_size: usize) -> u32 {
    (blob_size as f32 / blob_max_size as f32).ceil() as u32
}

#[cfg(kani)]
mod h {
    use super::*;
    #[kani::proof]
    fn slots_formula() {
        let n: usize = kani::any();
        kani::assume(n >= 1 && n <= (1usize << 24));
        let s = compute_appointment_slots(n, 2048);
        assert!(s as usize == (n + 2047) / 2048);
        assert!(s >= 1);
    }
    #[kani::proof]
    fn slots_formula_zero() {
        let s = compute_appointment_slots(0, 2048);
        assert!(s >= 1);
    }
    #[kani::proof]
    fn slots_formula_big() {
        let n: usize = kani::any();
        kani::assume(n > (1usize << 24) && n <= (1usize << 32));
        let s = compute_appointment_slots(n, 2048);
        assert!(s as usize == (n + 2047) / 2048);
    }
}
