#![feature(allocator_api)]
use vstd::prelude::*;
verus! {
global layout usize is size == 8;

#[derive(Debug)] pub struct PoisonError;
pub struct Mutex<T> { pub inner: T }
impl<T> Mutex<T> {
    pub fn lock(&mut self) -> (r: Result<&mut T, PoisonError>)
        ensures r is Ok, *r->Ok_0 == old(self).inner, *final(r->Ok_0) == final(self).inner,
    { Ok(&mut self.inner) }
}
pub type Arc<T> = T;
pub enum Ordering { Acquire, Release }
pub struct AtomicU32 { pub v: u32 }
impl AtomicU32 {
    pub fn load(&self, _o: Ordering) -> (r: u32) ensures r == self.v { self.v }
    pub fn store(&mut self, v: u32, _o: Ordering) ensures final(self).v == v { self.v = v; }
}

#[derive(Clone, Copy, PartialEq, Eq, Debug)] pub struct UserId(pub u64);
#[derive(Clone, Copy, PartialEq, Eq, Debug)] pub struct UUID(pub u64);
#[derive(Clone, Copy, PartialEq, Eq, Debug)] pub struct Locator(pub u64);
#[derive(Clone, PartialEq, Eq, Debug)] pub struct Transaction { pub id: u64 }
impl Transaction { pub fn compute_txid(&self) -> (r: u64) ensures r == self.id { self.id } }
pub struct SecretKey;

pub struct Appointment { pub locator: Locator, pub encrypted_blob: Vec<u8>, pub to_self_delay: u32 }
impl Appointment { #[verifier::external_body] pub fn to_vec(&self) -> Vec<u8> { unimplemented!() } }
pub struct ExtendedAppointment { pub inner: Appointment, pub user_id: UserId, pub user_signature: String, pub start_block: u32 }
impl ExtendedAppointment {
    pub fn new(inner: Appointment, user_id: UserId, user_signature: String, start_block: u32) -> Self { ExtendedAppointment { inner, user_id, user_signature, start_block } }
    #[verifier::external_body] pub fn uuid(&self) -> UUID { unimplemented!() }
    pub fn locator(&self) -> Locator { self.inner.locator }
    pub fn encrypted_blob(&self) -> &Vec<u8> { &self.inner.encrypted_blob }
}
pub struct AppointmentReceipt { pub user_signature: String, pub start_block: u32, pub signature: Option<String> }
impl AppointmentReceipt {
    pub fn new(user_signature: String, start_block: u32) -> Self { AppointmentReceipt { user_signature, start_block, signature: None } }
    #[verifier::external_body] pub fn sign(&mut self, sk: &SecretKey) { unimplemented!() }
}
#[derive(Debug, Clone, Copy, PartialEq, Eq)]
pub enum ConfirmationStatus { ConfirmedIn(u32), InMempoolSince(u32), IrrevocablyResolved, Rejected(i32) }
pub struct Breach { pub dispute_tx: Transaction, pub penalty_tx: Transaction }
impl Breach { pub fn new(dispute_tx: Transaction, penalty_tx: Transaction) -> Self { Breach { dispute_tx, penalty_tx } } }

#[derive(Debug)] pub struct AuthenticationFailure; #[derive(Debug)] pub struct NotEnoughSlots;
#[derive(Debug)] pub enum DbError { AlreadyExists, NotFound }
pub struct DBM { pub ghost appts: Map<UUID, int> }
impl DBM {
    #[verifier::external_body] pub fn appointment_exists(&self, uuid: UUID) -> (r: bool) ensures r == self.appts.contains_key(uuid) { unimplemented!() }
    #[verifier::external_body] pub fn store_appointment(&mut self, uuid: UUID, a: &ExtendedAppointment) -> (r: Result<(), DbError>)
        ensures r is Ok <==> !old(self).appts.contains_key(uuid) { unimplemented!() }
    #[verifier::external_body] pub fn update_appointment(&mut self, uuid: UUID, a: &ExtendedAppointment) -> (r: Result<(), DbError>)
        ensures r is Ok <==> old(self).appts.contains_key(uuid) { unimplemented!() }
}
pub struct Gatekeeper { pub ghost g: int }
impl Gatekeeper {
    #[verifier::external_body] pub fn authenticate_user(&self, m: &[u8], s: &str) -> Result<UserId, AuthenticationFailure> { unimplemented!() }
    #[verifier::external_body] pub fn has_subscription_expired(&self, u: UserId) -> (r: Result<(bool, u32), AuthenticationFailure>) ensures r is Ok { unimplemented!() }
    #[verifier::external_body] pub fn add_update_appointment(&mut self, u: UserId, uuid: UUID, a: &ExtendedAppointment) -> Result<u32, NotEnoughSlots> { unimplemented!() }
    #[verifier::external_body] pub fn delete_appointments(&mut self, a: Vec<UUID>, refund: bool) { unimplemented!() }
}
pub struct Responder { pub ghost r: int }
impl Responder {
    #[verifier::external_body] pub fn has_tracker(&self, uuid: UUID) -> bool { unimplemented!() }
    #[verifier::external_body] pub fn handle_breach(&mut self, uuid: UUID, b: Breach, u: UserId) -> ConfirmationStatus { unimplemented!() }
}
pub struct TxIndex { pub ghost m: Map<Locator, Transaction> }
impl TxIndex { #[verifier::external_body] pub fn get<'a>(&'a self, k: &'a Locator) -> Option<&'a Transaction> { unimplemented!() } }
pub struct DecryptingError;
#[verifier::external_body] pub fn decrypt(blob: &[u8], secret: &u64) -> Result<Transaction, DecryptingError> { unimplemented!() }

pub enum AddAppointmentFailure { AuthenticationFailure, NotEnoughSlots, SubscriptionExpired(u32), AlreadyTriggered }
enum StoredAppointment { New, Update }
enum TriggeredAppointment { Accepted, Rejected, Invalid }

pub struct Watcher {
    pub locator_cache: Mutex<TxIndex>,
    pub responder: Arc<Responder>,
    pub gatekeeper: Arc<Gatekeeper>,
    pub last_known_block_height: AtomicU32,
    pub signing_key: SecretKey,
    pub dbm: Arc<Mutex<DBM>>,
}

impl Watcher {
    pub fn add_appointment(
        &mut self,
        appointment: Appointment,
        user_signature: String,
    ) -> Result<(AppointmentReceipt, u32, u32), AddAppointmentFailure> {
        let user_id = self
            .gatekeeper
            .authenticate_user(&appointment.to_vec(), &user_signature)
            .map_err(|_e| AddAppointmentFailure::AuthenticationFailure)?;

        let (has_subscription_expired, expiry) =
            self.gatekeeper.has_subscription_expired(user_id).unwrap();

        if has_subscription_expired {
            return Err(AddAppointmentFailure::SubscriptionExpired(expiry));
        }

        let extended_appointment = ExtendedAppointment::new(
            appointment,
            user_id,
            user_signature,
            self.last_known_block_height.load(Ordering::Acquire),
        );

        let uuid = extended_appointment.uuid();

        if self.responder.has_tracker(uuid) {
            return Err(AddAppointmentFailure::AlreadyTriggered);
        }

        let available_slots = self
            .gatekeeper
            .add_update_appointment(user_id, uuid, &extended_appointment)
            .map_err(|_e| AddAppointmentFailure::NotEnoughSlots)?;

        let s = (self
            .locator_cache
            .lock()
            .unwrap()
            .get(&extended_appointment.locator())).cloned(); match s.as_ref()
        {
            // Appointments that were triggered in blocks held in the cache
            Some(dispute_tx) => {
                self.store_triggered_appointment(uuid, &extended_appointment, user_id, dispute_tx);
            }
            // Regular appointments that have not been triggered (or, at least, not recently)
            None => {
                self.store_appointment(uuid, &extended_appointment);
            }
        };

        let mut receipt = AppointmentReceipt::new(
            extended_appointment.user_signature,
            extended_appointment.start_block,
        );
        receipt.sign(&self.signing_key);

        Ok((receipt, available_slots, expiry))
    }

    fn store_appointment(
        &mut self,
        uuid: UUID,
        appointment: &ExtendedAppointment,
    ) -> StoredAppointment {
        let dbm = self.dbm.lock().unwrap();
        if dbm.appointment_exists(uuid) {
            dbm.update_appointment(uuid, appointment).unwrap();
            StoredAppointment::Update
        } else {
            dbm.store_appointment(uuid, appointment).unwrap();
            StoredAppointment::New
        }
    }

    fn store_triggered_appointment(
        &mut self,
        uuid: UUID,
        appointment: &ExtendedAppointment,
        user_id: UserId,
        dispute_tx: &Transaction,
    ) -> TriggeredAppointment {
        match decrypt(appointment.encrypted_blob(), &dispute_tx.compute_txid()) {
            Ok(penalty_tx) => {
                self.dbm
                    .lock()
                    .unwrap()
                    .store_appointment(uuid, appointment)
                    .unwrap();

                if let ConfirmationStatus::Rejected(reason) = self.responder.handle_breach(
                    uuid,
                    Breach::new(dispute_tx.clone(), penalty_tx),
                    user_id,
                ) {
                    self.gatekeeper.delete_appointments(vec![uuid], false);
                    TriggeredAppointment::Rejected
                } else {
                    TriggeredAppointment::Accepted
                }
            }
            Err(_) => {
                TriggeredAppointment::Invalid
            }
        }
    }
}

} // verus!
fn main() {}
