use vstd::prelude::*;
use std::collections::HashMap;
use vstd::std_specs::hash::*;
use vstd::std_specs::iter::IteratorSpec;
verus! {

fn t(data: &HashMap<u64, u32>)
    requires obeys_key_model::<u64>(),
{
    let it0 = data.iter();
    assert(it0.remaining().len() == data@.len());
    assert(it0.remaining().no_duplicates());
    assert(forall|i: int| 0 <= i < it0.remaining().len() ==> data@.contains_key(*it0.remaining()[i].0) && data@[*it0.remaining()[i].0] == *it0.remaining()[i].1);
    assert(forall|k: u64| data@.contains_key(k) ==> exists|i: int| 0 <= i < it0.remaining().len() && *it0.remaining()[i].0 == k);
}

} // verus!
fn main() {}
