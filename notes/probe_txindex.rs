#![feature(allocator_api)]
use vstd::prelude::*;
use std::collections::{HashMap, VecDeque};
use std::hash::Hash;
use vstd::std_specs::hash::*;
verus! {

global layout usize is size == 8;
// prelude
#[derive(Clone, Copy, PartialEq, Eq, Hash, Debug)]
pub struct BlockHash(pub u64);

pub struct Header { pub h: BlockHash }
impl Header {
    pub fn block_hash(&self) -> (r: BlockHash) ensures r == self.h { self.h }
}
pub struct Txid(pub u64);

pub broadcast proof fn axiom_blockhash_key_model()
    ensures #[trigger] obeys_key_model::<BlockHash>()
{ admit(); }

pub assume_specification<T, A: std::alloc::Allocator> [std::collections::VecDeque::<T, A>::back] (q: &std::collections::VecDeque<T, A>) -> (r: std::option::Option<&T>)
    ensures
        q@.len() == 0 ==> r is None,
        q@.len() > 0 ==> r == Some(&q@[q@.len() - 1]);

// R5 helper: self.index.retain(|k, _| !ks.contains(k))
#[verifier::external_body]
pub fn retain_not_in<K: Hash + Eq, V>(m: &mut HashMap<K, V>, ks: &Vec<K>)
    ensures
        final(m)@ == old(m)@.remove_keys(ks@.to_set()),
{
    m.retain(|k, _| !ks.contains(k));
}

// R5 helper: q.iter().position(|x| x == y)
#[verifier::external_body]
pub fn position_eq(q: &VecDeque<BlockHash>, y: &BlockHash) -> (r: Option<usize>)
    ensures
        match r {
            Some(i) => i < q@.len() && q@[i as int] == *y && forall|j: int| 0 <= j < i ==> q@[j] != *y,
            None => forall|j: int| 0 <= j < q@.len() ==> q@[j] != *y,
        }
{
    q.iter().position(|x| x == y)
}

// ---------- extracted code ----------
pub trait Key: Hash + Eq + Sized {
    fn from_txid(txid: Txid) -> Self;
}

pub struct TxIndex<K: Key, V> {
    pub index: HashMap<K, V>,
    pub blocks: VecDeque<BlockHash>,
    pub tx_in_block: HashMap<BlockHash, Vec<K>>,
    pub tip: u32,
    pub size: usize,
}

impl<K, V> TxIndex<K, V>
where
    K: Key + Copy,
    V: Clone,
    Self: Sized,
{
    pub open spec fn wf(&self) -> bool {
        &&& obeys_key_model::<K>()
        &&& self.blocks@.no_duplicates()
        &&& self.tx_in_block@.dom() =~= self.blocks@.to_set()
        &&& self.blocks@.len() <= self.size
        &&& forall|k: K| #[trigger] self.index@.contains_key(k) <==> exists|i: int| 0 <= i < self.blocks@.len() && #[trigger] self.tx_in_block@[self.blocks@[i]]@.contains(k)
    }

    pub fn is_full(&self) -> (r: bool)
        ensures r == (self.blocks@.len() > self.size)
    {
        self.blocks.len() > self.size
    }

    pub fn get_height(&self, block_hash: &BlockHash) -> (r: Option<usize>)
        requires self.wf(), self.tip as int >= self.blocks@.len(),
        ensures
            match r {
                Some(h) => exists|i: int| 0 <= i < self.blocks@.len() && self.blocks@[i] == *block_hash && h == self.tip - (self.blocks@.len() - 1 - i),
                None => !self.blocks@.contains(*block_hash),
            }
    {
        let pos = position_eq(&self.blocks, block_hash)?;
        Some(self.tip as usize + pos + 1 - self.blocks.len())
    }

    pub fn remove_oldest_block(&mut self)
        requires old(self).wf_pre_evict(),
        ensures final(self).blocks@ == old(self).blocks@.subrange(1, old(self).blocks@.len() as int),
                final(self).tip == old(self).tip, final(self).size == old(self).size,
                final(self).tx_in_block@ == old(self).tx_in_block@.remove(old(self).blocks@[0]),
                final(self).index@ == old(self).index@.remove_keys(old(self).tx_in_block@[old(self).blocks@[0]]@.to_set()),
    {
        broadcast use axiom_blockhash_key_model;
        let h = self.blocks.pop_front().unwrap();
        let ks = self.tx_in_block.remove(&h).unwrap();
        retain_not_in(&mut self.index, &ks);
    }

    pub open spec fn wf_pre_evict(&self) -> bool {
        &&& obeys_key_model::<K>()
        &&& self.blocks@.len() > 0
        &&& self.tx_in_block@.contains_key(self.blocks@[0])
    }
}

} // verus!
fn main() {}
