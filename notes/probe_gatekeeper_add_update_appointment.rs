#![feature(allocator_api)]
#![feature(sized_hierarchy)]
use vstd::prelude::*;
use std::collections::HashMap;
use std::hash::Hash;
use vstd::std_specs::hash::*;
verus! {
global layout usize is size == 8;

// ---------------- prelude: sequential projection of sync primitives ----------------
#[derive(Debug)]
pub struct PoisonError;
pub struct Mutex<T> { pub inner: T }
impl<T> Mutex<T> {
    pub fn lock(&mut self) -> (r: Result<&mut T, PoisonError>)
        ensures r is Ok, *r->Ok_0 == old(self).inner, *final(r->Ok_0) == final(self).inner,
    { Ok(&mut self.inner) }
}
pub type Arc<T> = T;
pub enum Ordering { Acquire, Release, Relaxed }
pub struct AtomicU32 { pub v: u32 }
impl AtomicU32 {
    pub fn load(&self, _o: Ordering) -> (r: u32) ensures r == self.v { self.v }
    pub fn store(&mut self, v: u32, _o: Ordering) ensures final(self).v == v { self.v = v; }
}

pub assume_specification<'a, K, V, S, A, Q> [std::collections::HashMap::<K, V, S, A>::get_mut] (m: &'a mut std::collections::HashMap<K, V, S, A>, k: &Q) -> (r: std::option::Option<&'a mut V>)
    where
        A: std::alloc::Allocator,
        K: std::cmp::Eq + std::hash::Hash + std::borrow::Borrow<Q>,
        Q: std::marker::MetaSized + std::hash::Hash + std::cmp::Eq + ?Sized,
        S: std::hash::BuildHasher,
    ensures
        obeys_key_model::<K>() && builds_valid_hashers::<S>() ==> match r {
            Some(v) => maps_borrowed_key_to_value(old(m)@, k, *v)
                  && final(m)@.dom() == old(m)@.dom()
                  && maps_borrowed_key_to_value(final(m)@, k, *final(v))
                  && (forall|kk: K| #[trigger] old(m)@.contains_key(kk) && !contains_borrowed_key(Map::<K, V>::empty().insert(kk, old(m)@[kk]), k) ==> final(m)@[kk] == old(m)@[kk]),
            None => !contains_borrowed_key(old(m)@, k) && final(m)@ == old(m)@,
        };

// ---------------- prelude: domain stand-ins ----------------
#[derive(Clone, Copy, PartialEq, Eq, Hash, Debug)]
pub struct UserId(pub u64);
#[derive(Clone, Copy, PartialEq, Eq, Hash, Debug)]
pub struct UUID(pub u64);
pub broadcast proof fn axiom_userid_key_model() ensures #[trigger] obeys_key_model::<UserId>() { admit(); }

pub const ENCRYPTED_BLOB_MAX_SIZE: usize = 2048;

pub open spec fn slots_spec(n: int) -> int { if n == 0 { 0 } else { (n + 2047) / 2048 } }

#[verifier::external_body]
pub fn compute_appointment_slots(blob_size: usize, blob_max_size: usize) -> (r: u32)
    requires blob_max_size == 2048, blob_size <= 0x100_0000,
    ensures r == slots_spec(blob_size as int),
{ unimplemented!() }

pub struct ExtendedAppointment { pub blob: Vec<u8> }
impl ExtendedAppointment {
    pub fn encrypted_blob(&self) -> (r: &Vec<u8>) ensures r == &self.blob { &self.blob }
}

pub struct DBM {
    pub ghost users: Map<UserId, UserInfo>,
    pub ghost appt_len: Map<UUID, nat>,
}
impl DBM {
    #[verifier::external_body]
    pub fn get_appointment_length(&self, uuid: UUID) -> (r: Option<usize>)
        ensures r == (if self.appt_len.contains_key(uuid) { Some(self.appt_len[uuid] as usize) } else { None::<usize> }),
                self.appt_len.contains_key(uuid) ==> self.appt_len[uuid] <= 0x100_0000,
    { unimplemented!() }
    #[verifier::external_body]
    pub fn update_user(&mut self, user_id: UserId, user_info: &UserInfo)
        ensures final(self).appt_len == old(self).appt_len,
            final(self).users == (if old(self).users.contains_key(user_id) { old(self).users.insert(user_id, *user_info) } else { old(self).users }),
    { unimplemented!() }
}

// ---------------- extracted from teos/src/gatekeeper.rs ----------------
#[derive(Debug, Clone, Copy, PartialEq, Eq)]
pub struct UserInfo {
    pub available_slots: u32,
    pub subscription_start: u32,
    pub subscription_expiry: u32,
}

pub struct NotEnoughSlots;

pub struct Gatekeeper {
    pub last_known_block_height: AtomicU32,
    pub subscription_slots: u32,
    pub subscription_duration: u32,
    pub expiry_delta: u32,
    pub registered_users: Mutex<HashMap<UserId, UserInfo>>,
    pub dbm: Arc<Mutex<DBM>>,
}

impl Gatekeeper {
    pub fn add_update_appointment(
        &mut self,
        user_id: UserId,
        uuid: UUID,
        appointment: &ExtendedAppointment,
    ) -> (res: Result<u32, NotEnoughSlots>)
        requires
            old(self).registered_users.inner@.contains_key(user_id),
            appointment.blob@.len() <= 0x100_0000,
            old(self).dbm.inner.appt_len.contains_key(uuid) ==> old(self).registered_users.inner@[user_id].available_slots + slots_spec(old(self).dbm.inner.appt_len[uuid] as int) <= u32::MAX,
        ensures
            ({
                let u0 = old(self).registered_users.inner@[user_id];
                let used = if old(self).dbm.inner.appt_len.contains_key(uuid) { slots_spec(old(self).dbm.inner.appt_len[uuid] as int) } else { 0 };
                let req = slots_spec(appointment.blob@.len() as int);
                match res {
                    Ok(s) => req - used <= u0.available_slots
                        && final(self).dbm.inner.users == (if old(self).dbm.inner.users.contains_key(user_id) { old(self).dbm.inner.users.insert(user_id, UserInfo { available_slots: s, ..u0 }) } else { old(self).dbm.inner.users })
                        && s == u0.available_slots - (req - used)
                        && final(self).registered_users.inner@ == old(self).registered_users.inner@.insert(user_id, UserInfo { available_slots: s, ..u0 }),
                    Err(_) => req - used > u0.available_slots && final(self).registered_users.inner@ == old(self).registered_users.inner@,
                }
            }),
    {
        broadcast use axiom_userid_key_model;
        // For updates, the difference between the existing appointment size and the update is computed.
        let mut registered_users = self.registered_users.lock().unwrap();
        let user_info = registered_users.get_mut(&user_id).unwrap();
        let used_blob_size = self
            .dbm
            .lock()
            .unwrap()
            .get_appointment_length(uuid)
            .unwrap_or(0);
        let used_slots = compute_appointment_slots(used_blob_size, ENCRYPTED_BLOB_MAX_SIZE);

        let required_slots =
            compute_appointment_slots(appointment.encrypted_blob().len(), ENCRYPTED_BLOB_MAX_SIZE);

        let diff = required_slots as i64 - used_slots as i64;
        if diff <= user_info.available_slots as i64 {
            // Filling / freeing slots depending on whether this is an update or not, and if it is bigger or smaller
            // than the old appointment
            user_info.available_slots = (user_info.available_slots as i64 - diff) as u32;

            self.dbm.lock().unwrap().update_user(user_id, user_info);

            Ok(user_info.available_slots)
        } else {
            Err(NotEnoughSlots)
        }
    }
}

} // verus!
fn main() {}
