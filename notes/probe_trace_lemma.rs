use vstd::prelude::*;
verus! {

// abstract state and step relation = conjunction of (verified) postconditions
pub struct St { pub avail: int, pub occ: int, pub granted: int }
pub enum Op { Register(int), Charge(int), Refund(int), Forfeit(int) }

pub open spec fn step(pre: St, op: Op, post: St) -> bool {
    match op {
        Op::Register(s) => s >= 0 && post.avail == pre.avail + s && post.granted == pre.granted + s && post.occ == pre.occ,
        Op::Charge(d)   => d <= pre.avail && pre.occ + d >= 0 && post.avail == pre.avail - d && post.occ == pre.occ + d && post.granted == pre.granted,
        Op::Refund(r)   => 0 <= r <= pre.occ && post.avail == pre.avail + r && post.occ == pre.occ - r && post.granted == pre.granted,
        Op::Forfeit(r)  => 0 <= r <= pre.occ && post.avail == pre.avail && post.occ == pre.occ - r && post.granted == pre.granted,
    }
}
pub open spec fn inv(s: St) -> bool { s.avail >= 0 && s.occ >= 0 && s.avail + s.occ <= s.granted }

pub open spec fn trace_ok(states: Seq<St>, ops: Seq<Op>) -> bool {
    states.len() == ops.len() + 1 && forall|i: int| 0 <= i < ops.len() ==> step(states[i], ops[i], #[trigger] states[i + 1])
}

pub proof fn lemma_inv_all(states: Seq<St>, ops: Seq<Op>, j: int)
    requires trace_ok(states, ops), inv(states[0]), 0 <= j < states.len(),
    ensures inv(states[j]),
    decreases j,
{
    if j > 0 {
        lemma_inv_all(states, ops, j - 1);
        assert(step(states[j - 1], ops[j - 1], states[j - 1 + 1]));
    }
}

} // verus!
fn main() {}
