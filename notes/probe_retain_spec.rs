#![feature(allocator_api)]
use vstd::prelude::*;
use std::collections::HashMap;
use vstd::std_specs::hash::*;
verus! {

pub assume_specification<K, V, S, A, F> [std::collections::HashMap::<K, V, S, A>::retain] (m: &mut std::collections::HashMap<K, V, S, A>, f: F)
    where
        A: std::alloc::Allocator,
        F: std::ops::FnMut(&K, &mut V) -> bool,
    ensures
        forall|k: K| #[trigger] final(m)@.contains_key(k) ==> old(m)@.contains_key(k) && final(m)@[k] == old(m)@[k]
            && exists|a: (&K, &mut V)| *a.0 == k && #[trigger] call_ensures(f, a, true),
        forall|k: K| #[trigger] old(m)@.contains_key(k) && !final(m)@.contains_key(k) ==>
            exists|a: (&K, &mut V)| *a.0 == k && #[trigger] call_ensures(f, a, false),
;

pub assume_specification<T: PartialEq> [<[T]>::contains] (s: &[T], x: &T) -> (r: bool)
    ensures r == s@.contains(*x);

fn t(index: &mut HashMap<u64, u32>, ks: &Vec<u64>)
    requires obeys_key_model::<u64>(),
    ensures final(index)@ =~= old(index)@.remove_keys(ks@.to_set()),
{
    index.retain(|k: &u64, _v: &mut u32| -> (b: bool) ensures b == !ks@.contains(*k) { !ks.contains(k) });
}

} // verus!
fn main() {}
