use vstd::prelude::*;
verus! {

#[derive(PartialEq)]
pub enum AuthMethod { UserPass, CookieFile, Multiple, Invalid }

pub struct Opt {
    pub api_bind: Option<String>,
    pub api_port: Option<u16>,
    pub tor_support: bool,
    pub overwrite_key: bool,
}

pub struct Config {
    pub api_bind: String,
    pub api_port: u16,
    pub btc_rpc_user: String,
    pub btc_rpc_password: String,
    pub btc_rpc_cookie: String,
    pub btc_network: String,
    pub btc_rpc_port: u16,
    pub tor_support: bool,
    pub overwrite_key: bool,
}

pub struct ConfigError(pub String);

impl Config {
    pub fn get_auth_method(&self) -> (r: AuthMethod)
        ensures
            (r == AuthMethod::UserPass) <==> (self.btc_rpc_user@.len() > 0 && self.btc_rpc_password@.len() > 0 && self.btc_rpc_cookie@.len() == 0),
    {
        match (
            self.btc_rpc_user.is_empty(),
            self.btc_rpc_password.is_empty(),
            self.btc_rpc_cookie.is_empty(),
        ) {
            (false, false, true) => AuthMethod::UserPass,
            (true, true, false) => AuthMethod::CookieFile,
            (true, true, true) => AuthMethod::Invalid,
            _ => AuthMethod::Multiple,
        }
    }

    pub fn patch_with_options(&mut self, options: Opt)
        ensures
            final(self).api_bind@ == (if options.api_bind is Some { options.api_bind->0@ } else { old(self).api_bind@ }),
            final(self).api_port == (if options.api_port is Some { options.api_port->0 } else { old(self).api_port }),
            final(self).tor_support == (old(self).tor_support || options.tor_support),
            final(self).overwrite_key == options.overwrite_key,
    {
        if options.api_bind.is_some() {
            self.api_bind = options.api_bind.unwrap();
        }
        if options.api_port.is_some() {
            self.api_port = options.api_port.unwrap();
        }
        self.tor_support = self.tor_support || options.tor_support;
        self.overwrite_key = options.overwrite_key;
    }

}

} // verus!
fn main() {}
