#![feature(allocator_api)]
#![feature(sized_hierarchy)]
use vstd::prelude::*;
use std::collections::HashMap;
verus! {

pub assume_specification<'a, K, V, S, A, Q> [std::collections::HashMap::<K, V, S, A>::get_mut] (m: &'a mut std::collections::HashMap<K, V, S, A>, k: &Q) -> (r: std::option::Option<&'a mut V>)
    where
        A: std::alloc::Allocator,
        K: std::cmp::Eq + std::hash::Hash + std::borrow::Borrow<Q>,
        Q: std::marker::MetaSized + std::hash::Hash + std::cmp::Eq + ?Sized,
        S: std::hash::BuildHasher,
    ensures
        vstd::std_specs::hash::obeys_key_model::<K>() && vstd::std_specs::hash::builds_valid_hashers::<S>() ==> match r {
            Some(v) => vstd::std_specs::hash::maps_borrowed_key_to_value(old(m)@, k, *v)
                  && final(m)@.dom() == old(m)@.dom()
                  && vstd::std_specs::hash::maps_borrowed_key_to_value(final(m)@, k, *final(v))
                  && (forall|kk: K| #[trigger] old(m)@.contains_key(kk) && !vstd::std_specs::hash::contains_borrowed_key(Map::<K, V>::empty().insert(kk, old(m)@[kk]), k) ==> final(m)@[kk] == old(m)@[kk]),
            None => !vstd::std_specs::hash::contains_borrowed_key(old(m)@, k) && final(m)@ == old(m)@,
        };

#[derive(Clone, Copy, PartialEq, Eq, Debug)]
pub struct UserInfo {
    pub available_slots: u32,
    pub subscription_start: u32,
    pub subscription_expiry: u32,
}

pub struct G {
    pub users: HashMap<u64, UserInfo>,
    pub subscription_slots: u32,
}

pub struct MaxSlotsReached;

impl G {
    fn renew(&mut self, user_id: u64) -> (r: Result<u32, MaxSlotsReached>)
        requires vstd::std_specs::hash::obeys_key_model::<u64>(),
        ensures
            final(self).subscription_slots == old(self).subscription_slots,
            match r {
                Ok(s) => old(self).users@.contains_key(user_id) ==> (
                    s == old(self).users@[user_id].available_slots + old(self).subscription_slots
                    && final(self).users@ == old(self).users@.insert(user_id, UserInfo { available_slots: s, ..old(self).users@[user_id] })),
                Err(_) => final(self).users@ == old(self).users@,
            }
    {
        let registered_users = &mut self.users;
        match registered_users.get_mut(&user_id) {
            Some(user_info) => {
                user_info.available_slots = user_info
                    .available_slots
                    .checked_add(self.subscription_slots)
                    .ok_or(MaxSlotsReached)?;
                Ok(user_info.available_slots)
            }
            None => Ok(0),
        }
    }
}

} // verus!
fn main() {}
