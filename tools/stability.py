#!/usr/bin/env python3
"""Proof-stability sweep: verify every Verus unit's main variant under N solver seeds and list the functions whose
obligations are rejected under any of them, with their resource use.  A function that needs the default seed is a
brittle proof: harden it (explicit lemma calls / intermediate assertions) before it turns a harmless edit into an
exit-2 `brittle proof` report.  usage: stability.py [N=8] [unit ...]"""
import concurrent.futures as cf
import json, os, sys
sys.path.insert(0, os.path.dirname(os.path.abspath(__file__)))
import runner

n = int(sys.argv[1]) if len(sys.argv) > 1 else 8
only = sys.argv[2:]
units = [u for u in runner.load_units()["units"] if u.get("engine", "verus") == "verus" and (not only or u["name"] in only)]
jobs = []
for u in units:
    g, path = runner.gen_unit(u, "main")
    for seed in range(n):
        jobs.append((u, g, path, seed))
    # context perturbation: the same text with k unrelated declarations added in front (changes the solver's symbol numbering
    # the way an unrelated edit of a prelude does); reported as seed 100+k
    txt = open(path).read()
    for k in (1, 3, 7):
        pad = "".join("pub struct Pad%d(pub u64); impl Pad%d { pub open spec fn pad(&self) -> bool { self.0 > %d } } " % (i, i, i) for i in range(k))
        pp = path.replace("__main.rs", "__pad%d.rs" % k)
        open(pp, "w").write(txt.replace("verus! {", "verus! { " + pad, 1))
        jobs.append((u, g, pp, 100 + k))


def one(j):
    u, g, path, seed = j
    r = runner.run_verus(path, u.get("rlimit"), ["--smt-option", "smt.random_seed=%d" % (seed if seed < 100 else 0)])
    if seed >= 100:
        os.remove(path)
    bad = []
    for d in r.get("diags", []):
        kind, ob = runner.classify_diag(d, g)
        if kind in ("verification", "undecided"):
            bad.append(runner.obligation_id(u["name"], ob) if kind == "verification" else "GAVE-UP " + ob["msg"][:80])
    top = []
    try:
        for mod in r["json"]["times-ms"]["smt"]["smt-run-module-times"]:
            for fb in mod.get("function-breakdown", []):
                top.append((fb["rlimit"], fb["time"], fb["function"].split("::", 1)[1]))
    except Exception:
        bad.append("NO-JSON")
    return u["name"], seed, sorted(set(bad)), sorted(top, reverse=True)[:3]


rc = 0
with cf.ThreadPoolExecutor(max_workers=8) as ex:
    res = list(ex.map(one, jobs))
for u in units:
    rows = [r for r in res if r[0] == u["name"]]
    bad = {s: b for _n, s, b, _t in rows if b}
    heavy = max((t for _n, _s, _b, tt in rows for t in tt), default=None)
    print("%-12s %d/%d seeds clean; heaviest query: %s" % (u["name"], len(rows) - len(bad), len(rows), heavy))
    for s, b in sorted(bad.items()):
        rc = 1
        print("   seed %d: %s" % (s, "; ".join(b)[:400]))
sys.exit(rc)
