#!/usr/bin/env python3
"""Confirm a seeded change in a scratch worktree (outside /repo and /verif), then run the registered checks against it.
usage: seed_confirm.py <seed_out_dir> <n> <seeded_id> <property>
Writes /verif/seeded/<seeded_id>/{patch.diff, demo.rs, meta.json}."""
import json, os, re, subprocess, sys, shutil, time
out_dir, n, sid, prop = sys.argv[1], sys.argv[2], sys.argv[3], sys.argv[4]
WT = "/tmp/confirm_wt"
TARGET = "/tmp/confirm_target"
VERIF = "/verif"
def sh(cmd, cwd=None, env=None, timeout=3600):
    e = dict(os.environ, CARGO_TARGET_DIR=TARGET, CARGO_NET_OFFLINE="true")
    r = subprocess.run(cmd, shell=True, cwd=cwd, env=e, capture_output=True, text=True, timeout=timeout)
    return r.returncode, r.stdout + r.stderr
if not os.path.isdir(WT):
    rc, o = sh("git -C /repo worktree add -q --detach %s HEAD" % WT)
    assert rc == 0, o
sh("git checkout -q --detach $(git -C /repo rev-parse HEAD) && git checkout -- . && git clean -fdq -e out", cwd=WT)
patch = open(os.path.join(out_dir, "change%s.diff" % n)).read()
demo = open(os.path.join(out_dir, "demo%s.rs" % n)).read()
mt = re.search(r"(teos(?:-common)?|watchtower-plugin)/src/[\w/]+\.rs", demo.split("\n")[0] + " " + demo[:400])
demo_file = sys.argv[5] if len(sys.argv) > 5 else (mt.group(0) if mt else None)
if demo_file is None:
    print("cannot determine demo target file"); sys.exit(2)
tests = re.findall(r"#\[(?:tokio::)?test[^\]]*\]\s*(?:pub\s+)?(?:async\s+)?fn\s+(\w+)", demo)
def add_demo():
    p = os.path.join(WT, demo_file)
    s = open(p).read()
    toplevel_mod = re.search(r"^\s*(#\[cfg\(test\)\]\s*)?mod\s+\w+\s*\{", demo, re.M) is not None and not demo.lstrip().startswith("//") or re.search(r"^#\[cfg\(test\)\]\s*\nmod ", demo, re.M) is not None
    if toplevel_mod:
        s = s.rstrip() + "\n\n" + demo + "\n"
    else:
        i = s.rstrip().rfind("}")
        s = s[:i] + "\n" + demo + "\n}\n"
    open(p, "w").write(s)
add_demo()
pkg = demo_file.split("/")[0]
# the plugin's main.rs is the binary crate `watchtower-client`: its demo module runs with --bins
TGT = "--bins" if demo_file.endswith("main.rs") else "--lib"
res = {"seeded_id": sid, "property": prop, "demo_file": demo_file, "tests": tests, "steps": []}
def run_tests(filter_):
    rc, o = sh("cargo test --offline -p %s %s %s 2>&1 | tail -40" % (pkg, TGT, filter_), cwd=WT)
    m = re.search(r"test result: (\w+)\. (\d+) passed; (\d+) failed", o)
    return (m.group(1), int(m.group(2)), int(m.group(3))) if m else ("?", -1, -1), o
flt = tests[0] if len(tests) == 1 else ""
r0, o0 = run_tests(" ".join(tests[:1]))
res["steps"].append({"what": "demo on original code", "result": r0})
rc, o = sh("git apply %s" % os.path.join(out_dir, "change%s.diff" % n), cwd=WT)
if rc != 0:
    print("patch does not apply:", o); sys.exit(2)
r1, o1 = run_tests(" ".join(tests[:1]))
res["steps"].append({"what": "demo with the change", "result": r1})
r2, o2 = run_tests("")
failed_names = re.findall(r"^test (\S+) \.\.\. FAILED", o2, re.M) if False else []
rcf, of = sh("cargo test --offline -p %s %s 2>&1 | grep -E '^test .* FAILED' | head" % (pkg, TGT), cwd=WT)
failed_names = re.findall(r"test (\S+) \.\.\. FAILED", of)
res["steps"].append({"what": "whole %s lib suite with the change (+demo)" % pkg, "result": r2, "failed": failed_names})
ok = r0[0] == "ok" and r0[1] >= 1 and r1[2] >= 1 and all(any(t in f for t in tests) for f in failed_names)
res["confirmed"] = bool(ok)
sh("git checkout -- . && git clean -fdq", cwd=WT)
# ---- run the checks against the change (scratch worktree with the change applied; same as `git -C /repo apply` + checks +
# `git -C /repo checkout -- .`, but without touching /repo so that other work can go on)
det = {}
if ok and not os.environ.get('SEED_CONFIRM_NO_CHECKS'):
    rc, o = sh("git apply %s" % os.path.join(out_dir, "change%s.diff" % n), cwd=WT)
    assert rc == 0, o
    env = dict(os.environ, VERIF_REPO=WT, VERIF_BUILD="/tmp/confirm_build", VERIF_EVID="/tmp/confirm_evid", VERIF_REPLAYS="/tmp/confirm_replays")
    for dd in ("/tmp/confirm_build", "/tmp/confirm_evid", "/tmp/confirm_replays"):
        os.makedirs(dd, exist_ok=True)
    try:
        man = json.load(open(os.path.join(VERIF, "MANIFEST.json")))
        for c in man["checks"]:
            pid = c["property_id"]
            t0 = time.time()
            r = subprocess.run(c["quick_cmd"], shell=True, cwd=VERIF, capture_output=True, text=True, timeout=3600, env=env)
            viol = [l for l in r.stdout.splitlines() if l.startswith("VIOLATION") or l.startswith("failed obligation") or l.startswith("UNDECIDED")]
            det[pid] = {"exit": r.returncode, "lines": viol[:6], "wall_s": round(time.time() - t0, 1)}
    finally:
        sh("git checkout -- . && git clean -fdq", cwd=WT)
res["checks"] = det
res["detected_by"] = sorted(p for p, v in det.items() if v["exit"] == 1)
res["undecided_in"] = sorted(p for p, v in det.items() if v["exit"] == 2)
d = os.path.join(VERIF, "seeded", sid)
os.makedirs(d, exist_ok=True)
shutil.copy(os.path.join(out_dir, "change%s.diff" % n), os.path.join(d, "patch.diff"))
open(os.path.join(d, "demo.rs"), "w").write(demo)
notes = os.path.join(out_dir, "notes.md")
res["needs"] = "see notes.md"
if os.path.exists(notes):
    shutil.copy(notes, os.path.join(d, "notes.md"))
res["what_i_ran"] = "scratch worktree %s (removed afterwards): demo on original -> %s; demo with change -> %s; whole lib suite with change -> %s (failing: %s). Then the change applied in the scratch worktree and every registered quick check run with VERIF_REPO pointing at it (equivalent to `git -C /repo apply` / checks / `git -C /repo checkout -- .`, without disturbing /repo)" % (WT, r0, r1, r2, failed_names)
json.dump(res, open(os.path.join(d, "meta.json"), "w"), indent=1)
print(json.dumps({k: res[k] for k in ("seeded_id", "confirmed", "detected_by", "undecided_in")}, indent=1))
for s in res["steps"]:
    print(s)
