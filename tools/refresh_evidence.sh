#!/bin/bash
# Maintenance helper: regenerates every evidence file from the unchanged tree and validates MANIFEST.json and the evidence
# files against their schemas.  Refuses to run when /repo has uncommitted changes (evidence must describe /repo itself).
cd "$(dirname "$0")/.." || exit 2
if [ -n "$(git -C /repo status --porcelain)" ]; then echo "refusing: /repo has uncommitted changes"; exit 2; fi
bad=0
for c in $(python3 -c "import json; print(' '.join(x['property_id'] for x in json.load(open('MANIFEST.json'))['checks']))"); do
  ./check $c > /tmp/refresh_$c.log 2>&1; rc=$?
  [ $rc -ne 0 ] && { echo "$c exit=$rc"; bad=1; }
done
python3-vt - <<'PY' || bad=1
import json, jsonschema, glob
jsonschema.validate(json.load(open('/verif/MANIFEST.json')), json.load(open('/root/.vp/MANIFEST.schema.json')))
s = json.load(open('/root/.vp/EVIDENCE.schema.json'))
for f in sorted(glob.glob('/verif/evidence/*.json')):
    e = json.load(open(f)); jsonschema.validate(e, s)
    assert e['coverage']['obligations'] == e['coverage']['discharged'], f
print('manifest and evidence valid')
PY
exit $bad
