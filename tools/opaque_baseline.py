#!/usr/bin/env python3
"""Maintenance helper (never run by a check): records, per unit and function, the constructs Verus accepts without a
meaning (closures without a contract, string-literal match patterns) that are present on the current tree, where every
obligation is discharged with them.  The runner treats only constructs NOT in this list as a reason to call a rejected
obligation undecided.  Re-run after a template changes."""
import json, os, sys
sys.path.insert(0, os.path.dirname(os.path.abspath(__file__)))
import extract
idx = json.load(open(os.path.join(extract.VERIF, "units", "index.json")))
out = {}
for u in idx["units"]:
    if u["engine"] != "verus":
        continue
    g = extract.generate(os.path.join(extract.VERIF, u["template"]), "main")
    d = {f["fn"]: f["opaque_constructs"] for f in g.functions if f.get("opaque_constructs")}
    if d:
        out[u["name"]] = d
json.dump(out, open(os.path.join(extract.VERIF, "units", "opaque_baseline.json"), "w"), indent=1, sort_keys=True)
print("opaque_baseline.json:", sum(len(v) for v in out.values()), "functions")
