#!/usr/bin/env python3
"""Writes /verif/MANIFEST.json from the table below (kept in one place so it stays valid)."""
import json, os
VERIF = os.path.dirname(os.path.dirname(os.path.abspath(__file__)))
BASE = json.load(open("/root/.vp/BASELINE.json"))["cmd"] if os.path.exists("/root/.vp/BASELINE.json") else ""

TB = ("Trusted: Verus/Z3 (and rustc front end); prelude std specs (assume_specification), domain stand-in types, "
      "external_body stubs for collaborators/DBM/crypto listed per run in the evidence; mechanical extraction rules "
      "E1-E15 (DESIGN.md 2.1) incl. the sequential projection of Mutex/Arc/Atomic (no interleavings).")

CLAIMED = {
 "C19": dict(
   text="Unbounded deductive proof (Verus) over the real text of TxIndex::{get,is_full,get_height,update,remove_disconnected_block,remove_oldest_block}: "
        "representation invariant, exact window/eviction/disconnection semantics, true heights, frames, for all keys/values/sequences of calls.",
   note=TB + " A2: keys of distinct live blocks are disjoint. TxIndex::new not under contract. F4 (window shrinks after a disconnect) is a recorded finding.",
   technique="contract-based deductive verification (Verus requires/ensures/loop invariants on mechanically extracted functions)",
   ref="4 C19, Appendix A.1"),
}

CLAIMED.update({
 "C07": dict(
   text="Deductive proof of the slot ledger per operation on the real text of Gatekeeper::{add_update_user, add_update_appointment, delete_appointments}: exact balance "
        "equations (grant +S checked, charge/return only the difference, reject leaves everything unchanged, refund == sum of slots of the deleted rows, no refund otherwise) and "
        "returned == in-memory == persisted on every path (mirror invariant); the f32 slot formula is proved == ceil(n/2048) and >= 1 for all 1 <= n <= 2^24 by a loop-free Kani function contract.",
   note=TB + " DBM SQL semantics assumed; A1 no-overflow precondition; blobs <= 2^24 bytes. The Watcher-side chain (who calls these with which row) is covered by the watcher unit when claimed under C01/C08.",
   technique="contract-based deductive verification (Verus) + Kani function contract (proof_for_contract, loop-free, complete) for the float formula",
   ref="4 C07, Appendix A.2"),
 "C09": dict(
   text="Deductive proof on the real text of Gatekeeper::{add_update_user, has_subscription_expired, get_outdated_users, filtered_block_connected, block_disconnected}: window (S,h,h+D) / renewal "
        "(+S checked, start kept, expiry +D saturating), expired <=> height >= expiry with the expiry returned, purge removes exactly the users with height >= expiry + delta from memory and database "
        "(cascade only to their appointments), others untouched, height stored / decremented; for every (S, D, delta) incl. 0 and u32::MAX.",
   note=TB + " A4 heights < u32::MAX; cascade semantics of batch_remove_users assumed (SQL).",
   technique="contract-based deductive verification (Verus requires/ensures/loop invariants on mechanically extracted functions)",
   ref="4 C09, Appendix A.2"),
})

NA = {
 "C03": "quantifies over process-death points, re-bootstrap of an async multi-component program and SQLite durability; no function contract expresses it (DESIGN.md 5)",
 "C10": "schedule/linearizability property; Kani has no threads and Verus only verifies concurrency for programs rewritten with its own lock/permission types; extraction rule E5 removes interleavings by construction",
 "C12": "liveness across threads and time (condvar wake-ups, retry until reachable); contracts give partial correctness of single calls only",
}
PENDING_REASON = "not claimed yet: its contract units are not built/verified in this commit (see DESIGN.md 7 delivery order); no check is registered rather than an unsound one"
ALL = ["C%02d" % i for i in range(1, 21)]

checks = []
for pid in ALL:
    if pid in CLAIMED:
        c = CLAIMED[pid]
        checks.append({
            "property_id": pid,
            "quick_cmd": "./check %s --tier quick" % pid,
            "thorough_cmd": "./check %s --tier thorough" % pid,
            "evidence_file": "/verif/evidence/%s.json" % pid,
            "replay_cmd_template": "./check %s --replay {path}" % pid,
            "engine": "contracts",
            "level_claimed": {"category": "proof", "text": c["text"], "design_ref": c["ref"]},
            "level_note": c["note"],
            "technique": c["technique"],
        })
na = []
for pid in ALL:
    if pid in CLAIMED:
        continue
    na.append({"property_id": pid, "reason": NA.get(pid, PENDING_REASON)})

m = {
 "version": 1,
 "setup_cmd": "sh setup.sh",
 "hooks": {"guard": "teos_verif", "enable": "none needed: extraction reads source text; replays run in scratch copies (cfg flag reserved, unused)",
           "baseline_off_cmd": BASE, "source_commits": [], "add_only": True},
 "engines": [{"name": "contracts", "path": "/verif/tools/runner.py", "serves_properties": sorted(CLAIMED),
              "kind_free_text": "mechanical extraction of real functions + Verus (deductive, unbounded) / Kani function contracts (loop-free, complete); bounded harnesses labelled bounded"}],
 "checks": checks,
 "not_applicable": na,
 "notes": "fix: commits in /repo: 4c8a027 (TxIndex::get_height), 94cd4a9 (Gatekeeper expiry arithmetic). Known findings: /verif/known_findings.json.",
}
json.dump(m, open(os.path.join(VERIF, "MANIFEST.json"), "w"), indent=1)
print("MANIFEST.json: %d checks, %d not_applicable" % (len(checks), len(na)))
