#!/usr/bin/env python3
"""Writes /verif/MANIFEST.json from the table below (kept in one place so it stays valid)."""
import json, os
VERIF = os.path.dirname(os.path.dirname(os.path.abspath(__file__)))
BASE = json.load(open("/root/.vp/BASELINE.json"))["cmd"] if os.path.exists("/root/.vp/BASELINE.json") else ""

TB = ("Thorough tier additionally runs the BOUNDED validation of the tower DBM stub contracts against the real SQL (159 014 operation sequences; labelled bounded, not a proof) and, for properties served by the gatekeeper / tx_index units, the replay searches that drive the "
      "real Gatekeeper + DBM (151 875 sequences) and the real TxIndex through small operation sequences and compare with the contracts' abstract view (bounded validation; they also supply the concrete failing input of a violation). "
      "Trusted: Verus/Z3 (and rustc front end); prelude std specs (assume_specification), domain stand-in types, "
      "external_body stubs for collaborators/DBM/crypto listed per run in the evidence; mechanical extraction rules "
      "E1-E18 (DESIGN.md 2.1) incl. the sequential projection of Mutex/Arc/Atomic (no interleavings).")

CLAIMED = {
 "C19": dict(
   text="Unbounded deductive proof (Verus) over the real text of TxIndex::{new,get,is_full,get_height,update,remove_disconnected_block,remove_oldest_block}: "
        "representation invariant, exact window/eviction/disconnection semantics, true heights, frames, for all keys/values/sequences of calls.",
   note=TB + " A2: keys of distinct live blocks are disjoint. F4 (window shrinks after a disconnection) is an open known finding reported on every run; F2 fixed (4c8a027).",
   technique="contract-based deductive verification (Verus requires/ensures/loop invariants on mechanically extracted functions)",
   ref="DESIGN.md §4 C19, §6"),
}

CLAIMED.update({
 "C07": dict(
   text="Deductive proof of the slot ledger per operation on the real text of Gatekeeper::{add_update_user, add_update_appointment, delete_appointments}: exact balance "
        "equations (grant +S checked, charge/return only the difference, reject leaves everything unchanged, refund == sum of slots of the deleted rows, no refund otherwise) and "
        "returned == in-memory == persisted on every path (mirror invariant); the f32 slot formula is proved == ceil(n/2048) and >= 1 for all 1 <= n <= 2^24 by a loop-free Kani function contract.",
   note=TB + " DBM SQL semantics assumed; A1 no-overflow precondition; blobs <= 2^24 bytes. The Watcher-side chain (who calls these with which row) is covered by the watcher unit when claimed under C01/C08.",
   technique="contract-based deductive verification (Verus) + Kani function contract (proof_for_contract, loop-free, complete) for the float formula",
   ref="DESIGN.md §4 C07, §6"),
 "C09": dict(
   text="Deductive proof on the real text of Gatekeeper::{add_update_user, has_subscription_expired, get_outdated_users, filtered_block_connected, block_disconnected}: window (S,h,h+D) / renewal "
        "(+S checked, start kept, expiry +D saturating), expired <=> height >= expiry with the expiry returned, purge removes exactly the users with height >= expiry + delta from memory and database "
        "(cascade only to their appointments), others untouched, height stored / decremented; for every (S, D, delta) incl. 0 and u32::MAX.",
   note=TB + " A4 heights < u32::MAX; cascade semantics of batch_remove_users assumed (SQL).",
   technique="contract-based deductive verification (Verus requires/ensures/loop invariants on mechanically extracted functions)",
   ref="DESIGN.md §4 C09, §6"),
})

VT = "contract-based deductive verification (Verus requires/ensures/loop invariants on mechanically extracted functions; collaborators as stubs carrying the contract their own unit proves)"
CLAIMED.update({
 "C01": dict(
   text="Deductive proof, per block and per request, on the real text of Watcher::{get_breaches, handle_breaches, filtered_block_connected, add_appointment, store_triggered_appointment, store_appointment}, "
        "Responder::{handle_breach, add_tracker}, Carrier::{send_transaction, in_mempool}: every stored appointment whose locator matches a transaction of the block (or of the 6-block cache at acceptance) is, "
        "before the call returns, tracked with exactly (dispute, decrypt(blob, txid)), listed for dropping (undecryptable / node rejected), or its penalty is known to the node as confirmed; only matched appointments are touched; an appointment is given up only if it is undecryptable or the node rejected its penalty, a tracker only if complete or rejected by the node. "
        "Whole-history form = this step invariant (winv/rinv are re-established by every entry point) ; no trace induction beyond that.",
   note=TB + " LDK ordering of block events, A2 fresh/distinct locators, decrypt = uninterpreted dec_spec (wiring proved in the blob unit). Known finding F3 (node says -27) is reported on every run.",
   technique=VT, ref="DESIGN.md §4 C01, §6"),
 "C02": dict(
   text="Deductive proof that every sendrawtransaction call (ghost call log of the RPC oracle) made by Watcher/Responder entry points carries the decrypted penalty of a matched stored appointment, or the dispute/penalty of a "
        "tracker flagged as reorged, or the penalty of a tracker waiting >= 6 blocks; queries and disconnections send nothing; a tracker row is created only for status accepted() (index / mempool / node OK); "
        "disconnected blocks' cache entries are purged (TxIndex contract).",
   note=TB + " The call-site enumeration is by contract frames of the functions under contract; `send_raw_transaction` call sites outside them are reported by the anchor check.",
   technique=VT, ref="DESIGN.md §4 C02, §6"),
 "C04": dict(
   text="Deductive proof on the real text of Responder::{check_confirmations, handle_reorged_txs, rebroadcast_stale_txs, filtered_block_connected, block_disconnected, handle_breach}, ConfirmationStatus::*, "
        "Gatekeeper::delete_appointments: completed <=> confirmed, not reorged, exactly 100 deep; refund exactly for completed trackers (end-to-end equation on the users table), none for rejected ones; reorged trackers are "
        "marked on disconnection and re-submitted (dispute then penalty) on the next connection; stale (>= 6 blocks) penalties re-submitted; confirmed heights never exceed the indexed tip (invariant); a tracker is reported rejected iff the node's memoised verdict is Rejected (every such verdict is backed by a rejected submission in the RPC log) and "
        "leaves the Responder only if complete or rejected by the node.",
   note=TB + " LDK delivers blocks in order; A1 ledger bound, A3 height >= 6, A4 heights < u32::MAX. Known finding F7 (rebroadcast answered -27) reported on every run; F12 fixed (7582f3f).",
   technique=VT, ref="DESIGN.md §4 C04, §6"),
 "C06": dict(
   text="Deductive proof on Gatekeeper::{authenticate_user, has_subscription_expired, get_user_info} and Watcher::{add_appointment, get_appointment, get_subscription_info}: success <=> the signature recovers, over exactly the "
        "request's message (appointment bytes / fmt(\"get appointment {locator}\") / \"get subscription info\"), to a registered, non-expired user; every refusal leaves all state unchanged; on success only rows at "
        "uuid(locator, that user) and that user's balance are read or written.",
   note=TB + " ECDSA recovery and RIPEMD160 are uninterpreted (injectivity of uuid assumed); format! rendering abstract (literal visible).",
   technique=VT, ref="DESIGN.md §4 C06, §6"),
 "C08": dict(
   text="Deductive proof: receipts' to_vec equal the specified byte layouts, sign/verify are inverse under the signing axiom (wire unit); Watcher::register / add_appointment return receipts whose fields are the values "
        "persisted (slots, start, expiry) resp. the user's signature and the tower's height at acceptance, signed with the tower key; an Ok receipt implies stored-as-sent / responded / dropped-as-invalid; get_appointment "
        "returns the stored row's bytes.",
   note=TB + " DBM read-after-write and SQL column mapping assumed; response construction in InternalAPI is covered under C15 when claimed.",
   technique=VT, ref="DESIGN.md §4 C08, §6"),
 "C16": dict(
   text="Narrowed: deductive proof that the signed byte layouts (Appointment, RegistrationReceipt, AppointmentReceipt, Locator, UserId) equal their spec functions and determine their fields uniquely (injectivity lemmas, "
        "big-endian u32 via bit-vector reasoning, UTF-8 via vstd's encode/decode lemma); appointment status: number -> status and name -> status are the inverses of the documented tables and Display writes the documented name; the serde adapters' kernels (serde_be::serialize and its visitor's visit_str: byte-reversed hex, with a proved round trip from the hex axiom; serde_status::serialize and visit_str: documented status names); "
        "the client hands a reply whose body decodes to the caller as decoded, whatever the status code (process_post_response).",
   note=TB + " NOT covered: serde derive output, build.rs-injected attributes (which field uses which adapter), serde_vec_bytes, JSON framing, HTTP layer - code behind macros and libraries; the hex crate and the Serializer are uninterpreted.",
   technique=VT, ref="DESIGN.md §4 C16, §6"),
 "C17": dict(
   text="Narrowed: deductive proof of the wiring of cryptography::{encrypt, decrypt} (key = SHA256(txid), zero nonce, consensus (de)serialisation) hence decrypt(encrypt(t,k),k) == Ok(t) from the AEAD/consensus round-trip axioms; "
        "verify(m,s,pk) <=> recover_pk(m,s) == Ok(pk); Locator::new(k) == k[0..16].",
   note=TB + " Tamper rejection / wrong-key failure are properties of Poly1305/ECDSA: assumed, not proved.",
   technique=VT, ref="DESIGN.md §4 C17, §6"),
 "C11": dict(
   text="Narrowed to abort-freedom: every unwrap/expect/index/arithmetic/cast/unreachable in the ~70 functions under contract (tx_index, gatekeeper, carrier, responder, watcher, wire, blob units) is a discharged obligation "
        "under the stated preconditions, and those preconditions are discharged at every verified call site. Deadlock/poisoning by interleavings is not decidable with this technique.",
   note=TB + " Known findings F3, F7 reported on every run; F5, F12 fixed.",
   technique=VT, ref="DESIGN.md §4 C11, §6"),
})

PT = ("Thorough tier (C05, C18) additionally runs the BOUNDED validation of the client DBM stub contracts against the real SQL (87 880 operation sequences; labelled bounded, not a proof) and the replay search that drives the real WTClient + client DBM through 331 776 operation sequences "
      "(bounded validation of the contracts' abstract view; it also supplies the concrete failing input of a wt_client violation). "
      "Trusted: Verus/Z3 (and rustc front end); prelude std specs; the client DBM stub transcribing watchtower-plugin/src/dbm.rs SQL as ghost relations; "
      "reqwest/serde_json as a nondeterministic oracle over the declared result types; ECDSA recovery uninterpreted; extraction rules E1-E18 incl. "
      "the sequential projection of Arc<Mutex<WTClient>> (no interleavings) and async removal.")
CLAIMED.update({
 "C15": dict(
   text="Deductive proof on the real text of the HTTP validators and error mapping (api::http::{register, add_appointment, get_appointment, get_subscription_info} bodies after body parsing, match_status, "
        "parse_grpc_response / ApiError constructors) and of the internal gRPC handlers (api::internal PublicTowerServices::{register, add_appointment, get_appointment, get_subscription_info}): every request value of the "
        "declared type yields either the documented reply or an error whose code is one of the documented ones and whose HTTP status is 4xx/503 (never 5xx, never the catch-all code); the handlers' unwraps "
        "(locator length, appointment presence) are discharged from what the validators establish; a non-OK answer implies the Watcher/Gatekeeper state is unchanged (contracts of Watcher::* reused).",
   note=TB + " NOT covered: warp routing/filters (method, path, content-length, JSON body parsing), tonic transport, serde: code behind macros and libraries - requests are quantified at the typed level "
        "(every value of the request struct), not at the byte level. F1 (empty blob accepted) fixed by 5263709.",
   technique=VT, ref="DESIGN.md §4 C15, §6"),
 "C20": dict(
   text="Deductive proof on the real text of Config::{get_auth_method, verify, default} (Verus) and complete loop-free Kani proofs of Config::patch_with_options for the tower and the CLI over every presence/absence "
        "combination of every option: each effective setting is the command-line value if given else the prior (file/default) value; overwrite_key / force_update are taken from the command line only; verify refuses unless "
        "exactly one authentication method is complete and the network is one of the four known ones, and selects the network's default RPC port iff none was set.",
   note=TB + " String contents are opaque tokens in the Kani harness (rule E17: String replaced by an opaque 8-byte token type, equality preserved); from_file (toml + serde defaults) is library code and not under contract: "
        "'file over defaults' is covered only as 'prior value kept when the option is absent'.",
   technique="contract-based deductive verification (Verus) + loop-free Kani harnesses over kani::any() (complete, no unwinding bound)", ref="DESIGN.md §4 C20, §6"),
 "C14": dict(
   text="Deductive proof on the real text of net::http::{add_appointment, send_appointment, register (result handling)}, WTClient::{add_update_tower, flag_misbehaving_tower}, Retrier::run and the receipt "
        "verification of teos-common (wire unit): an acknowledgement is returned as accepted only if its signature recovers to the tower id the request was addressed to; a signature that recovers to another key yields a "
        "misbehaviour proof which is persisted and flags the tower, after which the retrier stops (permanent error) ; a signature that does not decode is a deserialize error, not a panic; a registration receipt is recorded "
        "only if it strictly extends the known subscription, otherwise nothing changes; every unwrap/index/arithmetic in these functions is a discharged obligation for every value of the reply types.",
   note=PT + " Reply bodies are quantified at the typed level (every ApiResponse<T> / RequestError value), not raw bytes: reqwest and serde_json are not under contract. F11 (malformed signature panicked) fixed by 6f3994b; "
        "F10 (retrier unwrap on non-connection request errors) fixed by 4b1ac74. main.rs handlers are covered by the plugin_main unit when registered.",
   technique=VT, ref="DESIGN.md §4 C14, §6"),
 "C18": dict(
   text="Deductive proof on the real text of WTClient::{add_update_tower, add_appointment_receipt, add_pending_appointment, remove_pending_appointment, add_invalid_appointment, move_pending_appointment_to_invalid, "
        "flag_misbehaving_tower, set_tower_status, remove_tower, has_appointment, with_proxy} and the commands abandon_tower / register of main.rs: the in-memory TowerSummary map mirrors the persisted relations after every mutator (mirror invariant: same towers, same pending/invalid sets, "
        "status consistent with pending data / stored proof), every mutator touches only the addressed tower's rows (same_but frame over all seven relations), abandon deletes all and only that tower's rows, and a shared "
        "appointment body is deleted exactly when no other pending/invalid reference remains.",
   note=PT + " Reload after restart: WTClient::with_proxy is under contract (mirror and the status rule hold for what DBM::load_towers returns; assumption A7: the on-disk database was written by this code). F9 (a second record of the same kind for one "
        "(tower, locator) hits a UNIQUE constraint and unwraps) is expressed as preconditions pre.no-duplicate-* and checked at the call sites under contract.",
   technique=VT, ref="DESIGN.md §4 C18, §6"),
})

CLAIMED.update({
 "C05": dict(
   text="Deductive proof on the real text of the notification handler on_commitment_revocation (watchtower-plugin/src/main.rs), WTClient::{has_appointment, add_appointment_receipt, add_pending_appointment, "
        "add_invalid_appointment, flag_misbehaving_tower, remove_pending_appointment}, Retrier::run and net::http::add_appointment: for every decodable revocation and every tower value the http layer can return "
        "(accept, connection error, subscription error, other API error, undecodable body, wrong or malformed signature) each registered tower that is not flagged misbehaving holds, when the handler returns, a record of "
        "the appointment as accepted, pending or invalid; no (tower, locator) pair is ever in two of the three relations (invariant classified_once, preserved by the handler and by the retrier); nothing recorded before is "
        "forgotten or re-classified by the handler (relations only grow); pending/invalid rows carry the full appointment body (foreign-key invariant); a repeated notification changes nothing; the retrier moves each pending "
        "row to exactly accepted or invalid, or leaves it pending.",
   note=PT + " Sequential projection: one hook/command/retrier step at a time - revocations arriving while a retry is running are interleavings and are NOT covered (C10-style). Crash points: every mutator is a single "
        "SQLite transaction (assumed durable); a SIGKILL between the tower's acknowledgement and the insertion of the receipt is not modelled (no contract can express process death), CLN re-delivers unanswered hooks. "
        "F8 (garbage reply lost the appointment) fixed by 7001c0e, F9 (duplicate notification panicked with the state mutex held) fixed by 6ad5841; both replayed on the real binary (replay_tests/plugin_driver.py).",
   technique=VT, ref="DESIGN.md §4 C05, §6"),
 "C13": dict(
   text="Narrowed to what single-call contracts decide. Retrier::run: terminates (decreases on the pending set); Ok implies nothing is pending; every request error is transient Unreachable, i.e. back-off instead of a hot loop; "
        "subscription / misbehaviour / abandonment errors are permanent exactly as RetryError::is_permanent says. Retrier::start (one whole retry cycle, the back-off loop summarised by a checked summary of `run`): the cycle never "
        "leaves the retrier running; success => tower shown Reachable, retrier Stopped and delisted, nothing pending (on disk too if the retrier held all pending rows); giving up => tower Unreachable, retrier Idle and listed, data "
        "retained; permanent failure => SubscriptionError, or Misbehaving together with the persisted proof. Retrier::{set_status, should_start, remove_if_failed}: the client's table of active retriers follows the status. "
        "send_to_retrier: fresh data goes to the retry manager unless the tower's retrier exists and is not running (no data to an idle retrier). retry_tower: a manual retry is accepted exactly when the tower is known and its "
        "retrier is idle, or it has no retrier and is unreachable / subscription-error, and hands over None resp. the stale pending set. WTClient::with_proxy: at start-up exactly the temporarily-unreachable towers are queued.",
   note=PT + " NOT covered (outside single-call contracts): delivery within the configured delays (timing/liveness), `at no time two retry loops for one tower`, and RetryManager::manage_retry (tokio channel polling loop, timers, "
        "spawned tasks). backoff::future::retry_notify is a trusted helper whose contract is the checked summary of one `run` attempt composed by a checked transitivity lemma. F10 (hot loop on garbage replies) fixed by 4b1ac74.",
   technique=VT, ref="DESIGN.md §4 C13, §6"),
})

NA = {
 "C03": "quantifies over process-death points, re-bootstrap of an async multi-component program and SQLite durability; no function contract expresses it (DESIGN.md 5)",
 "C10": "schedule/linearizability property; Kani has no threads and Verus only verifies concurrency for programs rewritten with its own lock/permission types; extraction rule E5 removes interleavings by construction",
 "C12": "liveness across threads and time (condvar wake-ups, retry until reachable); contracts give partial correctness of single calls only",
}
PENDING_REASON = "not claimed yet: its contract units are not built/verified in this commit (see DESIGN.md 7 delivery order); no check is registered rather than an unsound one"
ALL = ["C%02d" % i for i in range(1, 21)]

checks = []
for pid in ALL:
    if pid in CLAIMED:
        c = CLAIMED[pid]
        checks.append({
            "property_id": pid,
            "quick_cmd": "./check %s --tier quick" % pid,
            "thorough_cmd": "./check %s --tier thorough" % pid,
            "evidence_file": "/verif/evidence/%s.json" % pid,
            "replay_cmd_template": "./check %s --replay {path}" % pid,
            "engine": "contracts",
            "level_claimed": {"category": "proof", "text": c["text"], "design_ref": c["ref"]},
            "level_note": c["note"],
            "technique": c["technique"],
        })
na = []
for pid in ALL:
    if pid in CLAIMED:
        continue
    na.append({"property_id": pid, "reason": NA.get(pid, PENDING_REASON)})

m = {
 "version": 1,
 "setup_cmd": "sh setup.sh",
 "hooks": {"guard": "teos_verif", "enable": "none needed: extraction reads source text; replays run in scratch copies (cfg flag reserved, unused)",
           "baseline_off_cmd": BASE, "source_commits": [], "add_only": True},
 "engines": [{"name": "contracts", "path": "/verif/tools/runner.py", "serves_properties": sorted(CLAIMED),
              "kind_free_text": "mechanical extraction of real functions + Verus (deductive, unbounded) / Kani function contracts (loop-free, complete); bounded harnesses labelled bounded"}],
 "checks": checks,
 "not_applicable": na,
 "notes": "fix: commits in /repo: 4c8a027 (F2), 94cd4a9 (F5), 7582f3f (F12), 5263709 (F1), 6f3994b (F11), 4b1ac74 (F10), 7001c0e (F8), 6ad5841 (F9), aa7929e (F13). Open known findings F3 F4 F7: /verif/known_findings.json. DESIGN.md §6.",
}
json.dump(m, open(os.path.join(VERIF, "MANIFEST.json"), "w"), indent=1)
print("MANIFEST.json: %d checks, %d not_applicable" % (len(checks), len(na)))
