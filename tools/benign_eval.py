#!/usr/bin/env python3
"""False-alarm test: run every registered quick check against behaviour-preserving refactorings.

usage: benign_eval.py <dir with benignN.diff files> [N ...]

Each diff is applied in a scratch worktree outside /repo and /verif (removed afterwards); the checks are pointed at it
with VERIF_REPO and write their build output, evidence and replays to scratch directories, so neither /repo nor the
committed evidence is touched.  Prints one line per diff: every check that did not exit 0, with its first message.
Exit status 1 if any check raised an alarm (exit 1) on a refactoring.
"""
import concurrent.futures as cf
import json, os, re, shutil, subprocess, sys

VERIF = os.path.dirname(os.path.dirname(os.path.abspath(__file__)))
WT = "/tmp/benign_eval_wt"
SCR = "/tmp/benign_eval_scratch"


def sh(cmd, cwd=None):
    r = subprocess.run(cmd, shell=True, cwd=cwd, capture_output=True, text=True)
    return r.returncode, r.stdout + r.stderr


d = os.path.abspath(sys.argv[1])
ns = sys.argv[2:] or sorted((re.search(r"benign(\d+)\.diff", f).group(1) for f in os.listdir(d) if re.fullmatch(r"benign\d+\.diff", f)), key=int)
sh("git -C /repo worktree remove --force %s" % WT)
rc, o = sh("git -C /repo worktree add -q --detach %s HEAD" % WT)
assert rc == 0, o
man = json.load(open(os.path.join(VERIF, "MANIFEST.json")))
alarm = False
try:
    for n in ns:
        rc, o = sh("git apply %s" % os.path.join(d, "benign%s.diff" % n), cwd=WT)
        if rc != 0:
            print("benign%s: does not apply: %s" % (n, o.strip()[:120]))
            continue

        def one(c):
            pid = c["property_id"]
            e = dict(os.environ, VERIF_REPO=WT, VERIF_NO_BOUNDED="1")   # replay searches stay on: the bounded stand-in for undecided units must not raise alarms either
            for k in ("VERIF_BUILD", "VERIF_EVID", "VERIF_REPLAYS"):
                e[k] = os.path.join(SCR, k, pid)
                os.makedirs(e[k], exist_ok=True)
            r = subprocess.run(c["quick_cmd"], shell=True, cwd=VERIF, capture_output=True, text=True, env=e)
            first = next((l for l in r.stdout.splitlines() if l.startswith(("failed obligation", "UNDECIDED"))), "")
            return pid, r.returncode, first[:170]
        try:
            with cf.ThreadPoolExecutor(max_workers=5) as ex:
                res = list(ex.map(one, man["checks"]))
        finally:
            sh("git checkout -- . && git clean -fdq", cwd=WT)
        bad = [(p, rc, f) for p, rc, f in res if rc != 0]
        if any(rc == 1 for _p, rc, _f in bad):
            alarm = True
        print("benign%s: %s" % (n, "all %d checks exit 0" % len(res) if not bad else "; ".join("%s exit %d (%s)" % b for b in bad)))
        sys.stdout.flush()
finally:
    sh("git -C /repo worktree remove --force %s" % WT)
    shutil.rmtree(SCR, ignore_errors=True)
sys.exit(1 if alarm else 0)
