"""Replay search: after a rejected obligation, look for a concrete failing input on the real crate.
Never part of the deciding step."""


def search(prop, unit, ob, rec):
    return False
