"""Replay search: after an obligation has been rejected, look for a concrete failing input on the REAL crate.
Never part of the deciding step: a violation is reported whether or not a replay is found.

A search is registered per unit (SEARCHES).  It copies the working tree under test (VERIF_REPO, default /repo) to a
scratch directory outside /repo and /verif, appends a `#[cfg(test)]` search module from /verif/replay_tests to the file
it belongs to, and runs it with `cargo test --offline`.  The module drives the real code through every small input of a
stated shape and prints `REPLAY-FAIL <input> :: <deviation>` for the first input on which the real code deviates from
the abstract view the contracts describe.  The scratch copy is removed afterwards; the cargo target directory is kept
under /verif/.cache (ignored by git) so that later searches are incremental.
"""
import os
import re
import shutil
import subprocess
import tempfile

VERIF = os.path.dirname(os.path.dirname(os.path.abspath(__file__)))
REPO = os.environ.get("VERIF_REPO", "/repo")

SEARCHES = {
    # unit -> (file the module is appended to, module file, package, test filter, what is enumerated)
    "tx_index": ("teos/src/tx_index.rs", "replay_tests/search_tx_index.rs", "teos", "verif_replay_search",
                 "all connect/disconnect sequences up to length 7 over windows of 2 and 3 blocks, blocks with 0..2 transactions"),
    "wt_client": ("watchtower-plugin/src/wt_client.rs", "replay_tests/search_wt_client.rs", "watchtower-plugin", "verif_replay_search_wt",
                  "real WTClient over the real client DBM (SQLite in memory): towers {t0,t1}, locators {l0,l1}, three registration receipts; a registration of t0 "
                  "followed by every sequence of 3 (quick tier: 13 824 sequences) or 4 (thorough tier: 331 776 sequences) operations out of 24 (register / renew, "
                  "receipt, pending, un-pend, invalid, flag, status, abandon)"),
    "gatekeeper": ("teos/src/gatekeeper.rs", "replay_tests/search_gatekeeper.rs", "teos", "verif_replay_search_gk",
                   "real Gatekeeper over the real DBM (SQLite in memory): users {u0,u1}, locators {l0,l1}, blob lengths {1,2048,2049}, 3 slots per registration, "
                   "(duration, grace) in {(2,1),(2,0),(1,3)}; a registration of u0 followed by every sequence of 4 operations out of 15 (register, submit / "
                   "replace, delete with and without refund, connect, disconnect, restart): 151 875 sequences"),
}
# bounded stand-ins for code no contract can reach (SQL): (source file pattern, module, file it is appended to, package,
# test filter, properties it speaks for, the stated bound)
BOUNDED = {
    "plugin_dbm": ("watchtower-plugin/src/dbm.rs", "replay_tests/bounded_plugin_dbm.rs", "watchtower-plugin/src/dbm.rs", "watchtower-plugin", "verif_bounded_dbm",
                   ["C05", "C18"],
                   "real client DBM (SQLite in memory) vs the stub contracts: towers {t1,t2}, locators {l1,l2}, expiries {e1<e2}; every sequence of <= 4 "
                   "operations starting with a registration, and every sequence of 3 operations after both towers are registered (87 880 sequences)",
                   ["wt_client", "retrier", "plugin_main"]),
    "tower_dbm": ("teos/src/dbm.rs", "replay_tests/bounded_tower_dbm.rs", "teos/src/dbm.rs", "teos", "verif_bounded_dbm",
                  ["C01", "C04", "C07", "C08", "C09", "C11"],
                  "real tower DBM (SQLite in memory) vs the stub contracts: users {u1,u2}, appointments a1=(l1,u1) a2=(l1,u2) a3=(l2,u1) in two versions, tracker "
                  "statuses ConfirmedIn/InMempoolSince/IrrevocablyResolved; every sequence of <= 3 operations on the empty database and every sequence of 3 "
                  "operations after both users and a1, a2 are stored (159 014 sequences)",
                  ["gatekeeper", "responder", "watcher", "api"]),
}
_done = {}


def search(prop, unit, ob, rec):
    name = unit["name"]
    if name not in SEARCHES or os.environ.get("VERIF_NO_REPLAY"):
        return False
    if name in _done:          # one search per unit and run: the same input explains every failed clause of the unit
        res = _done[name]
    else:
        res = _done[name] = _run(*SEARCHES[name])
    rec["replay_search"] = {"enumerated": SEARCHES[name][4], "module": SEARCHES[name][1], "outcome": res["outcome"], "log_tail": res["tail"]}
    if res["found"]:
        rec["concrete_input"] = res["found"]
        rec["replayed_on_real_code"] = True
        rec["replay_cmd"] = res["cmd"]
        return True
    return False


def _run(target_file, module, package, flt, what):
    scratch = tempfile.mkdtemp(prefix="verif_replay_")
    try:
        subprocess.run(["rsync", "-a", "--exclude", "target", "--exclude", ".git", REPO.rstrip("/") + "/", scratch + "/"], check=True)
        p = os.path.join(scratch, target_file)
        with open(p, "a", encoding="utf-8") as f:
            f.write("\n" + open(os.path.join(VERIF, module), encoding="utf-8").read())
        tdir = os.path.join(VERIF, ".cache", "replay_target")
        os.makedirs(tdir, exist_ok=True)
        cmd = "cargo test --offline -p %s --lib %s -- --nocapture" % (package, flt)
        env = dict(os.environ, CARGO_TARGET_DIR=tdir, CARGO_NET_OFFLINE="true", RUST_BACKTRACE="0")
        try:
            r = subprocess.run(cmd, shell=True, cwd=scratch, env=env, capture_output=True, text=True, timeout=1800)
        except subprocess.TimeoutExpired:
            return {"found": None, "outcome": "timeout", "tail": "", "cmd": cmd}
        out = r.stdout + r.stderr
        m = re.search(r"REPLAY-FAIL (.*)", out)
        if m:
            return {"found": m.group(1).strip()[:600], "outcome": "failing input found on the real code", "tail": out[-1500:], "cmd": cmd + "   (module %s appended to %s)" % (module, target_file)}
        if "REPLAY-NONE" in out:
            return {"found": None, "outcome": "no failing input in the enumerated space", "tail": out[-600:], "cmd": cmd}
        return {"found": None, "outcome": "search did not run to completion (build error?)", "tail": out[-1500:], "cmd": cmd}
    finally:
        shutil.rmtree(scratch, ignore_errors=True)


def bounded(name):
    """run a bounded stand-in; returns dict(kind = 'state' | 'result' | None, input, outcome, bound, cmd, sequences)"""
    if ("bounded", name) in _done:
        return _done[("bounded", name)]
    src, module, target_file, package, flt, props, bound, _units = BOUNDED[name]
    scratch = tempfile.mkdtemp(prefix="verif_bounded_")
    try:
        subprocess.run(["rsync", "-a", "--exclude", "target", "--exclude", ".git", REPO.rstrip("/") + "/", scratch + "/"], check=True)
        with open(os.path.join(scratch, target_file), "a", encoding="utf-8") as f:
            f.write("\n" + open(os.path.join(VERIF, module), encoding="utf-8").read())
        tdir = os.path.join(VERIF, ".cache", "replay_target")
        os.makedirs(tdir, exist_ok=True)
        cmd = "cargo test --offline -p %s --lib %s -- --nocapture" % (package, flt)
        env = dict(os.environ, CARGO_TARGET_DIR=tdir, CARGO_NET_OFFLINE="true", RUST_BACKTRACE="0")
        try:
            r = subprocess.run(cmd, shell=True, cwd=scratch, env=env, capture_output=True, text=True, timeout=3000)
            out = r.stdout + r.stderr
        except subprocess.TimeoutExpired:
            out = "TIMEOUT"
        res = {"kind": None, "input": None, "bound": bound, "cmd": cmd + "   (module %s appended to %s)" % (module, target_file), "sequences": 0, "outcome": "did not run to completion: " + out[-400:]}
        m = re.search(r"BOUNDED-FAIL (STATE|RESULT) (.*)", out)
        n = re.search(r"BOUNDED-NONE (\d+)", out)
        if m:
            res.update(kind=m.group(1).lower(), input=m.group(2).strip()[:700], outcome="the real code deviates from the stub contract (%s)" % m.group(1).lower())
        elif n:
            res.update(sequences=int(n.group(1)), outcome="no deviation in the enumerated space")
        _done[("bounded", name)] = res
        return res
    finally:
        shutil.rmtree(scratch, ignore_errors=True)
