#!/usr/bin/env python3
"""Mechanical extractor: copies real item text out of /repo into a verifier input file.

A unit is a template (`units/<unit>/unit.rs.tmpl`).  Every line that does not start with `//@` is
copied verbatim (specs, stubs, lemmas: the hand-written, *trusted or ghost* part).  `//@` directives
pull real code out of the repository's current working tree and splice contracts into it:

  //@ include <path relative to /verif>
  //@ extract <repo-relative path> :: <selector> [:: opt ...]
        ... contract / annotation lines ...
  //@ end

Selectors:   struct X | enum X | const X | static X | type X | trait X | fn x
             impl <normalised impl header> :: header       (header text up to and including `{`)
             impl <normalised impl header> :: fn x         (a method of that impl block)
Options (after the selector, separated by `::`):
   selfmut            rule E5: `&self` -> `&mut self`
   deasync            rule E10: `async fn` -> `fn`, `.await` erased
   ret=<name>         rule E2: `-> T` becomes `-> (name: T)`
   external_body      emit `#[verifier::external_body]` and keep signature + contract only
                      (body replaced by `{ unimplemented!() }`): a *stub carrying the contract*
   nolog              do not apply E6 (keep log statements)
   keepvis            do not apply E4
   nobody             (traits) keep only the header; used with hand-written content
Inside an extract block the lines are annotation sub-directives:
   requires / ensures / decreases / recommends ... (contract text, spliced between signature and body; E2)
       a trailing `// [label]` names the clause (obligation name)
   @loop N            following lines: invariant/decreases text spliced before the N-th loop body (E3)
   @sync-around-all <lit> ... @then ...     rule E16 around *every* statement starting with <lit> (lines before, then lines after)
   @sync-before <lit> / @sync-after <lit>   rule E16: insert `alias_sync(&mut x, &y);` (and nothing else) around a collaborator call
   @before-last <lit> like @before; with several occurrences the text goes before the last one
   @block-end <lit>   following lines: ghost text inserted before the closing brace of the block that opens after <lit>
   @loop-end N        following lines: ghost text inserted before the closing brace of the N-th loop's body
   @body              following lines: ghost text inserted right after the body's `{`
   @tail              following lines: ghost text inserted before the body's closing `}` (unit-returning fns)
   @before <literal>  following lines: ghost text inserted before the statement starting with <literal>
   @after <literal>   following lines: ghost text inserted after the first `;` that follows <literal>
   @rewrite <literal> => <replacement>     site rewrite (logged with its reason; literal is matched
                                           modulo whitespace and must occur exactly once)
   @reason <text>     reason attached to the previous @rewrite (goes to the evidence)
   @rewrite-all <literal> => <replacement> same, every occurrence (at least one)
   @rewrite-re <regex> ==>> <replacement>  regex form (python re, \\1 groups), every occurrence (at least one)
   @sig <literal> => <replacement>         rewrite restricted to the signature
Ghost insertions are checked mechanically to be ghost-only (assert / proof / broadcast use / let ghost).

Exit status of the library functions: raise ExtractError(kind) with kind in
  lost-anchor | ordinal-mismatch | rewrite-miss | bad-template
which the runner maps to exit 2 (undecided), never to a violation.
"""
import hashlib
import os
import re
import sys

REPO = os.environ.get("VERIF_REPO", "/repo")
VERIF = os.path.dirname(os.path.dirname(os.path.abspath(__file__)))


class ExtractError(Exception):
    def __init__(self, kind, msg):
        super().__init__(f"{kind}: {msg}")
        self.kind = kind
        self.msg = msg


# --------------------------------------------------------------------------------------------
# Lexical masking: same-length copy of the source in which comments, string/char literal
# contents are replaced by spaces (newlines kept), so that brace matching and regexes are safe.
# --------------------------------------------------------------------------------------------
def mask(src, literals=True):
    """blank comments and (if `literals`) the contents of string/char literals"""
    out = list(src)
    i, n = 0, len(src)

    def blank(a, b, lit=False):
        if lit and not literals:
            return
        for k in range(a, b):
            if out[k] != "\n":
                out[k] = " "

    while i < n:
        c = src[i]
        if src.startswith("//", i):
            j = src.find("\n", i)
            j = n if j < 0 else j
            blank(i, j)
            i = j
        elif src.startswith("/*", i):
            depth, j = 1, i + 2
            while j < n and depth:
                if src.startswith("/*", j):
                    depth += 1
                    j += 2
                elif src.startswith("*/", j):
                    depth -= 1
                    j += 2
                else:
                    j += 1
            blank(i, j)
            i = j
        elif c == '"' or (c in "br" and re.match(r'(b?r#*"|b")', src[i:i + 8]) and (i == 0 or not (src[i - 1].isalnum() or src[i - 1] == "_"))):
            m = re.match(r'(b?)(r(#*))?"', src[i:])
            if m.group(2) is not None:  # raw string
                hashes = m.group(3)
                start = i + m.end()
                end = src.find('"' + hashes, start)
                end = n if end < 0 else end
                blank(start, end, True)
                i = end + 1 + len(hashes)
            else:
                j = i + m.end()
                while j < n and src[j] != '"':
                    j += 2 if src[j] == "\\" else 1
                blank(i + m.end(), j, True)
                i = j + 1
        elif c == "'":
            # char literal or lifetime
            m = re.match(r"'(\\.[^']*|[^'\\])'", src[i:])
            if m:
                blank(i + 1, i + m.end() - 1, True)
                i += m.end()
            else:
                i += 1
        else:
            i += 1
    return "".join(out)


def mask_comments(src):
    """like mask() but only comments are blanked (string/char literals stay, also when they contain `//`)"""
    return mask(src, literals=False)


OPEN, CLOSE = "([{", ")]}"


def match_close(m, i):
    """m: masked text, i: index of an opening bracket; returns index of its closing bracket."""
    depth = 0
    for j in range(i, len(m)):
        ch = m[j]
        if ch in OPEN:
            depth += 1
        elif ch in CLOSE:
            depth -= 1
            if depth == 0:
                return j
    raise ExtractError("bad-template", "unbalanced brackets")


ITEM_RE = re.compile(
    r"\b(?:(?:pub(?:\s*\([^)]*\))?|default|async|unsafe|extern\s*\"[^\"]*\"|const(?=\s+(?:fn|unsafe|async)))\s+)*"
    r"(fn|struct|enum|union|const|static|trait|impl|type|mod|use|macro_rules!)\b")


class Item:
    __slots__ = ("kind", "name", "start", "kw", "end", "body_open", "header")

    def __repr__(self):
        return f"<{self.kind} {self.name} {self.start}-{self.end}>"


def parse_items(src, m, lo, hi):
    """Items directly inside src[lo:hi] (depth 0 relative to that span)."""
    items = []
    pos = lo
    prev_end = lo
    while True:
        mt = ITEM_RE.search(m, pos, hi)
        if not mt:
            break
        # make sure we are at depth 0 relative to lo: count brackets between prev_end and mt.start()
        depth = 0
        bad = False
        for ch in m[prev_end:mt.start()]:
            if ch in OPEN:
                depth += 1
            elif ch in CLOSE:
                depth -= 1
        if depth != 0:
            # inside something we failed to skip; advance conservatively
            pos = mt.end()
            continue
        it = Item()
        it.kind = mt.group(1)
        it.kw = mt.start(1)
        # item start: go back over attributes / whitespace / comments to prev_end
        it.start = _item_start(src, m, prev_end, mt.start())
        # find end
        j = mt.end()
        depth = 0
        end = None
        body_open = None
        semis_only = it.kind in ("const", "static", "type", "use")
        while j < hi:
            ch = m[j]
            if ch in OPEN:
                if ch == "{" and depth == 0 and not semis_only:
                    body_open = j
                    end = match_close(m, j) + 1
                    break
                depth += 1
            elif ch in CLOSE:
                depth -= 1
            elif ch == ";" and depth == 0:
                end = j + 1
                break
            j += 1
        if end is None:
            raise ExtractError("bad-template", f"cannot find end of item at {mt.start()}")
        if it.kind == "struct" and body_open is None:
            pass
        it.end = end
        it.body_open = body_open
        it.header = re.sub(r"\s+", " ", m[it.kw:(body_open if body_open is not None else end)]).strip()
        nm = re.match(r"\s*(?:<[^>]*>)?\s*([A-Za-z_][A-Za-z0-9_]*)", m[mt.end():end])
        it.name = nm.group(1) if nm else ""
        items.append(it)
        pos = end
        prev_end = end
    return items


def _item_start(src, m, lo, kwstart):
    """Extend an item's start backwards over `#[...]` attributes and doc comments."""
    # Walk forward from lo: skip whitespace/comments (blank in mask); the first non-blank
    # char in the mask begins either an attribute or the item itself.
    i = lo
    first = None
    while i < kwstart:
        if m[i].isspace():
            i += 1
            continue
        if m[i] == "#" and first is None:
            first = i
        elif first is None:
            first = i
        # skip attribute
        if m[i] == "#":
            k = m.find("[", i)
            i = match_close(m, k) + 1
        else:
            break
    if first is None:
        first = kwstart
    # include directly preceding doc-comment lines (`///`) in the original text
    line_start = src.rfind("\n", 0, first) + 1
    while True:
        prev_line_end = line_start - 1
        if prev_line_end <= lo:
            break
        prev_line_start = src.rfind("\n", 0, prev_line_end) + 1
        if prev_line_start < lo:
            break
        if src[prev_line_start:prev_line_end].strip().startswith("///"):
            line_start = prev_line_start
        else:
            break
    return min(first, line_start) if src[line_start:first].strip() == "" or src[line_start:first].strip().startswith("///") else first


class SourceFile:
    cache = {}

    def __init__(self, rel):
        self.rel = rel
        path = os.path.join(REPO, rel)
        if not os.path.exists(path):
            raise ExtractError("lost-anchor", f"source file {rel} does not exist")
        self.src = open(path, encoding="utf-8").read()
        self.m = mask(self.src)
        self.items = parse_items(self.src, self.m, 0, len(self.src))

    @classmethod
    def get(cls, rel):
        if rel not in cls.cache:
            cls.cache[rel] = SourceFile(rel)
        return cls.cache[rel]

    def line_of(self, off):
        return self.src.count("\n", 0, off) + 1

    def find(self, selector):
        parts = [p.strip() for p in selector.split("::FN::")]
        items = self.items
        # `mod a/fn f`: an item inside an inline module
        while selector.startswith("mod ") and "/" in selector:
            head, selector = selector.split("/", 1)
            mname = head[4:].strip()
            mods = [it for it in items if it.kind == "mod" and it.name == mname and it.body_open is not None]
            if len(mods) != 1:
                raise ExtractError("lost-anchor", f"{self.rel}: `mod {mname}` matches {len(mods)} inline modules")
            items = parse_items(self.src, self.m, mods[0].body_open + 1, mods[0].end - 1)
        kind, _, name = selector.partition(" ")
        name = name.strip()
        if kind == "impl":
            raise ExtractError("bad-template", "use find_impl")
        cands = [it for it in items if it.kind == kind and it.name == name]
        if len(cands) != 1:
            raise ExtractError("lost-anchor", f"{self.rel}: `{selector}` matches {len(cands)} top-level items")
        return cands[0]

    def find_impl(self, header):
        want = re.sub(r"\s+", " ", header).strip()
        cands = []
        for it in self.items:
            if it.kind != "impl":
                continue
            h = it.header
            h0 = re.split(r"\bwhere\b", h)[0].strip()
            if h0 == want or h == want:
                cands.append(it)
        if len(cands) != 1:
            raise ExtractError("lost-anchor", f"{self.rel}: impl header `{want}` matches {len(cands)} impl blocks")
        return cands[0]

    def impl_items(self, impl):
        return parse_items(self.src, self.m, impl.body_open + 1, impl.end - 1)

    def scoped(self, path):
        """view of the items nested in `mod a/fn f/...` (inline modules and function bodies)"""
        items = self.items
        for step in [x.strip() for x in path.split("/") if x.strip()]:
            kind, _, name = step.partition(" ")
            c = [it for it in items if it.kind == kind and it.name == name.strip() and it.body_open is not None]
            if len(c) != 1:
                raise ExtractError("lost-anchor", f"{self.rel}: scope `{step}` matches {len(c)} items")
            items = parse_items(self.src, self.m, c[0].body_open + 1, c[0].end - 1)
        v = SourceFile.__new__(SourceFile)
        v.rel, v.src, v.m, v.items = self.rel, self.src, self.m, items
        return v


# --------------------------------------------------------------------------------------------
# Transformation rules.  All of them keep the number of lines unchanged so that a verifier
# diagnostic on generated line L maps back to source line  src_line0 + (L - gen_line0).
# --------------------------------------------------------------------------------------------
DERIVE_KEEP = {"Clone", "Copy", "PartialEq", "Eq", "Hash", "Debug", "Default"}


def rule_E1_attrs(text, log):
    m = mask(text)
    out = []
    i = 0
    for mt in re.finditer(r"#\s*\[", m):
        if mt.start() < i:
            continue
        k = m.find("[", mt.start())
        e = match_close(m, k) + 1
        inner = text[k + 1:e - 1].strip()
        repl = None
        if inner.startswith("derive"):
            names = [x.strip() for x in inner[inner.find("(") + 1:inner.rfind(")")].split(",") if x.strip()]
            keep = [x for x in names if x.split("::")[-1] in DERIVE_KEEP]
            dropped = [x for x in names if x not in keep]
            if dropped:
                log.append(f"E1 dropped derive({', '.join(dropped)})")
            repl = ("#[derive(" + ", ".join(keep) + ")]") if keep else ""
        elif re.match(r"(serde|structopt|doc|allow|cfg_attr|tokio|inline|must_use)\b", inner):
            log.append(f"E1 dropped #[{inner.split('(')[0]}..]")
            repl = ""
        if repl is not None:
            seg = text[mt.start():e]
            pad = "\n" * seg.count("\n")
            out.append(text[i:mt.start()] + repl + pad)
            i = e
    out.append(text[i:])
    return "".join(out)


def rule_E4_vis(text, kind, in_trait_impl, log):
    m = mask(text)
    # pub(crate)/pub(super) -> pub
    res = []
    i = 0
    for mt in re.finditer(r"\bpub\s*\(\s*(?:crate|super|in [^)]*)\s*\)", m):
        res.append(text[i:mt.start()] + "pub")
        i = mt.end()
    res.append(text[i:])
    text2 = "".join(res)
    if text2 != text:
        log.append("E4 pub(crate) -> pub")
    text = text2
    m = mask(text)
    if kind == "struct":
        # named fields at depth 1
        kw = re.search(r"\bstruct\b", m).end()
        b = m.find("{", kw)
        p = m.find("(", kw)
        semi = m.find(";", kw)
        if p >= 0 and semi >= 0 and semi < p:
            p = -1
        if b >= 0 and (semi < 0 or b < semi) and (p < 0 or b < p):
            e = match_close(m, b)
            pieces = []
            last = b + 1
            depth = 0
            field_start = True
            j = b + 1
            while j < e:
                ch = m[j]
                if ch in OPEN or ch == "<":
                    depth += 1
                elif ch in CLOSE or (ch == ">" and m[j - 1] != "-"):
                    depth -= 1
                elif depth == 0:
                    if ch == ",":
                        field_start = True
                    elif field_start and (ch.isalpha() or ch == "_"):
                        word = re.match(r"[A-Za-z_][A-Za-z0-9_]*", m[j:]).group(0)
                        if word not in ("pub", "ghost", "tracked"):
                            pieces.append(text[last:j] + "pub ")
                            last = j
                            log.append(f"E4 field {word} made pub")
                        field_start = False
                    elif ch == "#":
                        k = m.find("[", j)
                        j = match_close(m, k)
                j += 1
            pieces.append(text[last:])
            text = text[:b + 1] + "".join(pieces)
        elif p >= 0:
            e = match_close(m, p)
            # tuple struct: make each field pub
            inner = text[p + 1:e]
            im = m[p + 1:e]
            parts = []
            depth = 0
            last = 0
            for j, ch in enumerate(im):
                if ch in OPEN or ch == "<":
                    depth += 1
                elif ch in CLOSE or ch == ">":
                    depth -= 1
                elif ch == "," and depth == 0:
                    parts.append(inner[last:j])
                    last = j + 1
            parts.append(inner[last:])
            parts = [(" pub " + x.strip() if x.strip() and not x.strip().startswith("pub") else x) for x in parts]
            text = text[:p + 1] + ",".join(parts).strip() + text[e:]
    if kind in ("struct", "enum", "const", "static", "type", "trait"):
        m = mask(text)
        k = _first_code_pos(text, m)
        if not m[k:].startswith("pub"):
            text = text[:k] + "pub " + text[k:]
            log.append(f"E4 {kind} made pub")
    elif kind == "fn" and not in_trait_impl:
        mt = re.match(r"((?:\s*#\[[^\]]*\]\s*)*)(\s*)(pub\b)?", text)
        # add pub if missing (inherent methods / free functions)
        k = _first_code_pos(text, m)
        if not m[k:].startswith("pub"):
            text = text[:k] + "pub " + text[k:]
            log.append("E4 fn made pub")
    return text


def _first_code_pos(text, m):
    """position of the first token that is not an attribute / comment / whitespace"""
    i = 0
    while i < len(m):
        if m[i].isspace():
            i += 1
        elif m[i] == "#":
            k = m.find("[", i)
            i = match_close(m, k) + 1
        else:
            return i
    return len(m)


LOG_RE = re.compile(r"\blog\s*::\s*(trace|debug|info|warn|error)\s*!\s*\(")


def rule_E6_logs(text, log):
    m = mask(text)
    out = []
    i = 0
    for mt in LOG_RE.finditer(m):
        if mt.start() < i:
            continue
        p = m.find("(", mt.start())
        e = match_close(m, p) + 1
        k = e
        while k < len(m) and m[k] in " \t":
            k += 1
        seg_end = e
        if k < len(m) and m[k] == ";":
            seg_end = k + 1
            repl = ""
        else:
            repl = "()"
        seg = text[mt.start():seg_end]
        arith = bool(re.search(r"[-+*/]\s*[A-Za-z0-9_(]", mask(text[p + 1:e - 1]).replace("->", "")))
        log.append("E6 dropped log::%s!%s" % (mt.group(1), " (contains arithmetic, not checked)" if arith else ""))
        out.append(text[i:mt.start()] + repl + "\n" * seg.count("\n"))
        i = seg_end
    out.append(text[i:])
    return "".join(out)


def ws_pattern(lit):
    """regex matching `lit` modulo whitespace"""
    toks = re.findall(r"[A-Za-z0-9_]+|\S", lit)
    pat = []
    for a, b in zip(toks, toks[1:] + [None]):
        pat.append(re.escape(a))
        if b is not None:
            both_word = re.match(r"\w", a[-1]) and re.match(r"\w", b[0])
            pat.append(r"\s+" if both_word else r"\s*")
    return re.compile("".join(pat))


GHOST_OK = re.compile(r"^\s*(proof\s*\{|assert\b|assert\(|broadcast use\b|let ghost\b|let tracked\b|assume\b|reveal\b|//)")


class Generated:
    """Accumulates output lines with their origin for diagnostics mapping."""

    def __init__(self):
        self.lines = []    # text
        self.origin = []   # dict per line
        self.items = []    # per extracted item: dict(source, selector, sha256, lines, rules)
        self.functions = []  # functions under contract
        self.trusted = []  # trusted markers found
        self.finding_tags = set()
        self.loop_counts = {}

    def add(self, text, origin):
        for k, ln in enumerate(text.split("\n")):
            for sub in ln.split("\x01"):
                o = dict(origin)
                if "src_line0" in o:
                    o["src_line"] = o["src_line0"] + k
                self.lines.append(sub)
                self.origin.append(o)

    def text(self):
        return "\n".join(self.lines) + "\n"


def split_opts(s):
    return [p.strip() for p in re.split(r"\s+::\s+", s)]


def parse_block(lines):
    """Annotation block of an extract directive -> dict"""
    blk = {"contract": [], "loops": {}, "loopends": {}, "body": [], "tail": [], "before": [], "after": [], "blockends": [], "rewrites": [], "sig": []}
    cur = blk["contract"]
    for ln in lines:
        s = ln.strip()
        if s.startswith("@loop-end"):
            n = int(s.split()[1])
            cur = blk["loopends"].setdefault(n, [])
        elif s.startswith("@loop"):
            n = int(s.split()[1])
            cur = blk["loops"].setdefault(n, [])
        elif s.startswith("@body"):
            cur = blk["body"]
        elif s.startswith("@tail"):
            cur = blk["tail"]
        elif s.startswith("@before-last "):
            # like @before, but if the statement occurs several times (e.g. an early-return path repeats it) the ghost
            # text goes before the LAST occurrence
            ent = ["\x02last\x02" + s[len("@before-last "):].strip(), []]
            blk["before"].append(ent)
            cur = ent[1]
        elif s.startswith("@before "):
            ent = [s[len("@before "):].strip(), []]
            blk["before"].append(ent)
            cur = ent[1]
        elif s.startswith("@block-end "):
            ent = [s[len("@block-end "):].strip(), []]
            blk["blockends"].append(ent)
            cur = ent[1]
        elif s.startswith("@sync-around-all "):
            ent = [s.split(" ", 1)[1].strip(), [], []]
            blk.setdefault("syncaround", []).append(ent)
            cur = ent[1]
        elif s.startswith("@then"):
            # second half of a @sync-around-all block: the lines to put after the statement
            cur = blk["syncaround"][-1][2]
        elif s.startswith("@sync-before ") or s.startswith("@sync-after "):
            key = "before" if s.startswith("@sync-before ") else "after"
            ent = [s.split(" ", 1)[1].strip(), [], "sync"]
            blk[key].append(ent)
            cur = ent[1]
        elif s.startswith("@after "):
            ent = [s[len("@after "):].strip(), []]
            blk["after"].append(ent)
            cur = ent[1]
        elif s.startswith("@rewrite ") or s.startswith("@sig ") or s.startswith("@rewrite-all ") or s.startswith("@rewrite-re ") or s.startswith("@rewrite-re? "):
            # `@rewrite-re?`: a shape rule that applies wherever the shape occurs (zero occurrences allowed)
            optional = s.startswith("@rewrite-re? ")
            if optional:
                s = "@rewrite-re " + s[len("@rewrite-re? "):]
            key = "sig" if s.startswith("@sig ") else "rewrites"
            body = s.split(" ", 1)[1]
            sep = "==>>" if "==>>" in body else "=>"
            if sep not in body:
                raise ExtractError("bad-template", f"rewrite without => : {s}")
            a, b = body.split(sep, 1)
            blk[key].append({"from": a.strip(), "to": b.strip(), "reason": "", "all": s.startswith("@rewrite-all ") or s.startswith("@rewrite-re "), "re": s.startswith("@rewrite-re "), "optional": optional})
            cur = None
        elif s.startswith("@reason "):
            tgt = blk["rewrites"] if blk["rewrites"] else blk["sig"]
            tgt[-1]["reason"] = s[len("@reason "):]
        elif s.startswith("@contract"):
            cur = blk["contract"]
        else:
            if cur is None:
                if s == "":
                    continue
                raise ExtractError("bad-template", f"stray line after rewrite: {s}")
            cur.append(ln)
    return blk


def apply_rewrites(text, rewrites, log, what):
    for rw in rewrites:
        m = mask(text)
        pat = re.compile(rw["from"]) if rw.get("re") else ws_pattern(rw["from"])
        # match on the original text but only at positions that are code in the mask
        hits = [h for h in pat.finditer(mask_comments(text)) if m[h.start()] == text[h.start()]]
        if rw.get("optional") and not hits:
            continue
        if rw.get("all"):
            if not hits:
                raise ExtractError("rewrite-miss", f"{what}: rewrite-all source `{rw['from']}` does not occur")
        elif len(hits) != 1:
            raise ExtractError("rewrite-miss", f"{what}: rewrite source `{rw['from']}` occurs {len(hits)} times (expected 1)")
        for h in reversed(hits):
            seg = text[h.start():h.end()]
            to = h.expand(rw["to"]) if rw.get("re") else rw["to"]
            repl = to.replace("\\n", "\x01") + "\n" * seg.count("\n")
            text = text[:h.start()] + repl + text[h.end():]
        log.append(f"REWRITE{' (all %d sites)' % len(hits) if rw.get('all') else ''} `{rw['from']}` => `{rw['to']}`" + (f" [{rw['reason']}]" if rw["reason"] else ""))
    return text


# Rule E19 (idiom table): std API shapes Verus has no specification mechanism for (they return a borrow of the
# container's interior) are mapped, wherever they occur in a function under contract, to a trusted helper of the prelude
# (prelude/idioms.rs) whose body is the original expression.  Optional: applied only where the shape occurs, so that a
# realistic edit introducing the idiom is decided instead of ending as "unsupported construct".
IDIOMS = [
    (r"if let \[(\w+)\] = (\w+)\.as_slice\(\) \{", r"if \2.len() == 1 { let \1 = &\2[0];", "single-element slice pattern `if let [x] = v.as_slice()` (Verus has no slice patterns)"),
    (r"([A-Za-z_][\w.]*)\s*\.entry\(([^()]*(?:\([^()]*\))?[^()]*)\)\s*\.or_insert\(([^()]*(?:\([^()]*\))?[^()]*)\);",
     r"map_entry_or_insert(&mut \1, \2, \3);", "HashMap::entry(k).or_insert(v) as a statement"),
]


def _split_top(s, sep=","):
    """split at top-level separators (not inside brackets)"""
    out, depth, cur = [], 0, ""
    for ch in s:
        if ch in "([{":
            depth += 1
        elif ch in ")]}":
            depth -= 1
        if ch == sep and depth == 0:
            out.append(cur)
            cur = ""
        else:
            cur += ch
    if cur.strip():
        out.append(cur)
    return [x.strip() for x in out if x.strip()]


def unroll_array_loops(text, log):
    """E19: `for x in [a, b, c] { body }` (by-value iteration over an array literal; Verus has no spec for
    core::array::IntoIter) is unrolled into `{ let x = a; body } { let x = b; body } { let x = c; body }`.  Only when the
    body contains no `break` / `continue` / loop label, so that the unrolled text means the same."""
    rx = re.compile(r"\bfor\s+(\w+)\s+in\s+\[")
    pos = 0
    while True:
        m = mask(text)
        h = rx.search(mask_comments(text), pos)
        if not h:
            return text
        if m[h.start()] != text[h.start()]:
            pos = h.end()
            continue
        # the array literal
        j, depth = h.end(), 1
        while j < len(m) and depth:
            depth += m[j] in "([{"
            depth -= m[j] in ")]}"
            j += 1
        arr = text[h.end():j - 1]
        k = j
        while k < len(m) and m[k].isspace():
            k += 1
        if k >= len(m) or m[k] != "{" or ";" in arr:
            pos = h.end()
            continue
        e, depth = k + 1, 1
        while e < len(m) and depth:
            depth += m[e] == "{"
            depth -= m[e] == "}"
            e += 1
        body = text[k + 1:e - 1]
        if re.search(r"\b(break|continue)\b|'\w+\s*:", mask(body)):
            pos = h.end()
            continue
        elems = _split_top(arr)
        seg = text[h.start():e]
        new = " ".join("{ let %s = %s; %s }" % (h.group(1), el, " ".join(body.split("\n"))) for el in elems)
        text = text[:h.start()] + new + "\n" * seg.count("\n") + text[e:]
        log.append(f"E19 idiom (`for {h.group(1)} in [..{len(elems)} elements..]` over an array literal unrolled: core::array::IntoIter has no Verus spec)")
        pos = h.start() + len(new)


def expand_cmp_max_min(text, log):
    """E19: `std::cmp::max(A, B)` / `cmp::min(A, B)` (generic over Ord: Verus cannot give the generic functions a spec) is replaced
    by its definition `{ let a = A; let b = B; if b >= a { b } else { a } }` (max; min analogously: `if a <= b { a } else { b }`),
    which has the same value and evaluates A then B exactly once.  Only meaningful for Copy operands; for anything else the
    generated text does not compile and the unit is undecided."""
    rx = re.compile(r"\b(?:std::|core::)?cmp::(max|min)\s*\(")
    pos = 0
    while True:
        m = mask(text)
        h = rx.search(mask_comments(text), pos)
        if not h:
            return text
        if m[h.start()] != text[h.start()]:
            pos = h.end()
            continue
        j, depth = h.end(), 1
        while j < len(m) and depth:
            depth += m[j] in "([{"
            depth -= m[j] in ")]}"
            j += 1
        args = _split_top(text[h.end():j - 1])
        if len(args) != 2:
            pos = h.end()
            continue
        a, b = (" ".join(x.split()) for x in args)
        seg = text[h.start():j]
        if h.group(1) == "max":
            new = "{ let cmp_a__ = %s; let cmp_b__ = %s; if cmp_b__ >= cmp_a__ { cmp_b__ } else { cmp_a__ } }" % (a, b)
        else:
            new = "{ let cmp_a__ = %s; let cmp_b__ = %s; if cmp_a__ <= cmp_b__ { cmp_a__ } else { cmp_b__ } }" % (a, b)
        text = text[:h.start()] + new + "\n" * seg.count("\n") + text[j:]
        log.append("E19 idiom (`cmp::%s(a, b)` replaced by its definition: the generic function has no Verus spec)" % h.group(1))
        pos = h.start() + len(new)


def apply_idioms(text, log):
    text = unroll_array_loops(text, log)
    text = expand_cmp_max_min(text, log)
    for pat, to, why in IDIOMS:
        rx = re.compile(pat)
        m = mask(text)
        hits = [h for h in rx.finditer(mask_comments(text)) if m[h.start()] == text[h.start()]]
        for h in reversed(hits):
            seg = text[h.start():h.end()]
            text = text[:h.start()] + h.expand(to) + "\n" * seg.count("\n") + text[h.end():]
        if hits:
            log.append(f"E19 idiom ({why}) -> trusted helper, {len(hits)} site(s)")
    return text


def fn_split(text):
    """(signature_text, body_text) for an fn item; body starts at its opening brace. For trait
    method declarations without body returns (sig, None)."""
    m = mask(text)
    kw = re.search(r"\bfn\b", m).start()
    depth = 0
    for j in range(kw, len(m)):
        ch = m[j]
        if ch in "([":
            depth += 1
        elif ch in ")]":
            depth -= 1
        elif ch == "{" and depth == 0:
            return text[:j], text[j:]
        elif ch == ";" and depth == 0:
            return text[:j], None
    raise ExtractError("bad-template", "fn without body")


def loops_in(body):
    """offsets of the `{` opening the body of each loop, in textual order"""
    m = mask(body)
    res = []
    for mt in re.finditer(r"\b(for|while|loop)\b", m):
        if mt.group(1) == "for":
            # skip `for<'a>` (HRTB) and `impl X for Y`
            rest = m[mt.end():mt.end() + 2]
            if rest.lstrip().startswith("<"):
                continue
        depth = 0
        j = mt.end()
        in_contract = False
        while j < len(m):
            ch = m[j]
            if depth == 0 and ch in "ide" and re.match(r"(invariant|decreases|ensures)\b", m[j:j + 10]) and not m[j - 1].isalnum() and m[j - 1] != "_":
                # spliced loop contract: its clauses may contain `{ .. }` blocks; every clause ends with `,`, so the
                # loop body is the first `{` at depth 0 that follows a comma
                in_contract = True
            if ch in "([":
                depth += 1
            elif ch in ")]":
                depth -= 1
            elif ch == "{" and in_contract and m[:j].rstrip()[-1:] != ",":
                depth += 1
            elif ch == "}" and in_contract:
                depth -= 1
            elif ch == "{" and depth == 0:
                res.append(j)
                break
            elif ch == ";" and depth == 0:
                break
            j += 1
    return res


def check_ghost(lines, what):
    txt = "\n".join(lines).strip()
    if not txt:
        return
    if not GHOST_OK.match(txt):
        raise ExtractError("bad-template", f"{what}: inserted text is not ghost-only: {txt[:60]}")


def check_sync(lines, what):
    """rule E16: the only executable statements that may be inserted are calls of the no-op `alias_sync`"""
    for l in lines:
        t = l.strip()
        if t and not re.fullmatch(r"alias_sync\(&mut [A-Za-z_.]+, &[A-Za-z_.]+\);", t):
            raise ExtractError("bad-template", f"{what}: @sync text must be alias_sync(&mut a.b, &c.d); got `{t}`")


def labels_of(contract_lines):
    labs = []
    for ln in contract_lines:
        mt = re.search(r"//\s*\[([^\]]+)\]\s*$", ln)
        if mt:
            labs.append(mt.group(1))
    return labs


def transform_fn(text, opts, blk, log, what, in_trait_impl):
    text = rule_E1_attrs(text, log)
    if "nolog" not in opts:
        text = rule_E6_logs(text, log)
    if "keepvis" not in opts:
        text = rule_E4_vis(text, "fn", in_trait_impl, log)
    if "deasync" in opts:
        # rule E10: sequential projection of async: `async fn` -> `fn`, `.await` erased
        m = mask(text)
        n_await = len(re.findall(r"\.\s*await\b", m))
        text2 = re.sub(r"\basync\s+fn\b", "fn", text, count=1)
        out, i = [], 0
        for mt in re.finditer(r"\.\s*await\b", mask(text2)):
            out.append(text2[i:mt.start()])
            out.append(" " * 0 + "\n" * text2[mt.start():mt.end()].count("\n"))
            i = mt.end()
        out.append(text2[i:])
        text = "".join(out)
        log.append(f"E10 async fn -> fn, {n_await} `.await` erased")
    sig, body = fn_split(text)
    if body is None:
        raise ExtractError("bad-template", f"{what}: no body")
    if "selfmut" in opts:
        sig2 = re.sub(r"\(\s*&\s*self\b", lambda mm: mm.group(0).replace("&", "&mut ").replace("&mut  ", "&mut "), sig, count=1)
        if sig2 == sig and "&mut self" not in sig and "& mut self" not in sig:
            sig2 = re.sub(r"\(\s*&\s*'([a-z_]+)\s+self\b", r"(&'\1 mut self", sig, count=1)
            if sig2 == sig:
                raise ExtractError("rewrite-miss", f"{what}: selfmut but no `&self` receiver")
        if sig2 != sig:
            log.append("E5 &self -> &mut self")
        sig = sig2
    for o in opts:
        if o.startswith("ret="):
            name = o[4:]
            msig = mask(sig)
            # find the `->` of the fn (last one at paren depth 0)
            depth = 0
            arrow = None
            j = 0
            while j < len(msig):
                ch = msig[j]
                if ch in "([":
                    depth += 1
                elif ch in ")]":
                    depth -= 1
                elif msig.startswith("->", j) and depth == 0 and arrow is None:
                    arrow = j
                j += 1
            if arrow is None:
                raise ExtractError("rewrite-miss", f"{what}: ret= but no return type")
            # return type extends to `where` at depth 0 or end of sig
            wm = re.search(r"\bwhere\b", msig[arrow:])
            rend = arrow + wm.start() if wm else len(sig)
            rtype = sig[arrow + 2:rend]
            stripped = rtype.strip()
            trail = rtype[len(rtype.rstrip()):]
            lead = rtype[:len(rtype) - len(rtype.lstrip())]
            sig = sig[:arrow + 2] + lead + f"({name}: {stripped})" + trail + sig[rend:]
            log.append(f"E2 return value named `{name}`")
    sig = apply_rewrites(sig, blk["sig"], log, what)
    # body annotations
    body = apply_rewrites(body, blk["rewrites"], log, what)
    if "external_body" not in opts and body is not None:
        body = apply_idioms(body, log)
    # loops: process from last to first so offsets stay valid
    if blk["loopends"]:
        # ghost text right before the closing brace of the N-th loop's body (processed last-to-first)
        offs = loops_in(body)
        for n in sorted(blk["loopends"], reverse=True):
            if n < 1 or n > len(offs):
                raise ExtractError("ordinal-mismatch", f"{what}: loop {n} requested, body has {len(offs)} loops")
            check_ghost(blk["loopends"][n], what)
            e = match_close(mask(body), offs[n - 1])
            ins = "\x01".join(l.rstrip() for l in blk["loopends"][n] if l.strip())
            body = body[:e] + "\x01" + ins + "\x01" + body[e:]
            log.append(f"ghost text inserted at the end of loop {n}'s body")
    if blk["loops"]:
        offs = loops_in(body)
        for n in sorted(blk["loops"], reverse=True):
            if n < 1 or n > len(offs):
                raise ExtractError("ordinal-mismatch", f"{what}: loop {n} requested, body has {len(offs)} loops")
            ins = "\x01".join(l.rstrip() for l in blk["loops"][n] if l.strip())
            body = body[:offs[n - 1]] + "\x01" + ins + "\x01" + body[offs[n - 1]:]
            log.append(f"E3 loop {n} invariant spliced")
    for lit, before_lines, after_lines in blk.get("syncaround", []):
        # rule E16 applied to every call statement that starts with <literal> (at least one must exist)
        check_sync(before_lines, what)
        check_sync(after_lines, what)
        pat = ws_pattern(lit)
        mb = mask(body)
        hits = [h for h in pat.finditer(mask_comments(body)) if mb[h.start()] == body[h.start()]]
        if not hits:
            raise ExtractError("rewrite-miss", f"{what}: @sync-around-all `{lit}` does not occur")
        for h in reversed(hits):
            depth = 0
            j = h.start()
            while j < len(mb):
                ch = mb[j]
                if ch in OPEN:
                    depth += 1
                elif ch in CLOSE:
                    depth -= 1
                elif ch == ";" and depth == 0:
                    break
                j += 1
            pre = "\x01".join(l.strip() for l in before_lines if l.strip())
            post = "\x01".join(l.strip() for l in after_lines if l.strip())
            body = body[:h.start()] + pre + "\x01" + body[h.start():j + 1] + "\x01" + post + "\x01" + body[j + 1:]
        log.append(f"E16 alias synchronisation around {len(hits)} call(s) `{lit}`")
    for ent in blk["before"]:
        lit, lines = ent[0], ent[1]
        if len(ent) > 2:
            check_sync(lines, what)
        else:
            check_ghost(lines, what)
        last = lit.startswith("\x02last\x02")
        if last:
            lit = lit[len("\x02last\x02"):]
        pat = ws_pattern(lit)
        mb = mask(body)
        hits = [h for h in pat.finditer(mask_comments(body)) if mb[h.start()] == body[h.start()]]
        if len(hits) != 1 and not (last and len(hits) > 1):
            raise ExtractError("rewrite-miss", f"{what}: @before `{lit}` occurs {len(hits)} times")
        ins = "\x01".join(l.rstrip() for l in lines if l.strip())
        body = body[:hits[-1].start()] + ins + "\x01" + body[hits[-1].start():]
        log.append(f"ghost text inserted before `{lit}`")
    for lit, lines in blk["blockends"]:
        # ghost text before the closing brace of the block opened by the first `{` after <literal>
        check_ghost(lines, what)
        pat = ws_pattern(lit)
        mb = mask(body)
        hits = [h for h in pat.finditer(mask_comments(body)) if mb[h.start()] == body[h.start()]]
        if len(hits) != 1:
            raise ExtractError("rewrite-miss", f"{what}: @block-end `{lit}` occurs {len(hits)} times")
        o = mb.find("{", hits[0].end() - 1)
        if o < 0:
            raise ExtractError("rewrite-miss", f"{what}: @block-end `{lit}`: no block follows")
        e = match_close(mb, o)
        ins = "\x01".join(l.rstrip() for l in lines if l.strip())
        body = body[:e] + "\x01" + ins + "\x01" + body[e:]
        log.append(f"ghost text inserted at the end of the block after `{lit}`")
    for ent in blk["after"]:
        lit, lines = ent[0], ent[1]
        if len(ent) > 2:
            check_sync(lines, what)
        else:
            check_ghost(lines, what)
        pat = ws_pattern(lit)
        mb = mask(body)
        hits = [h for h in pat.finditer(mask_comments(body)) if mb[h.start()] == body[h.start()]]
        if len(hits) != 1:
            raise ExtractError("rewrite-miss", f"{what}: @after `{lit}` occurs {len(hits)} times")
        # end of statement: next `;` at bracket depth 0 from match start
        depth = 0
        j = hits[0].start()
        while j < len(mb):
            ch = mb[j]
            if ch in OPEN:
                depth += 1
            elif ch in CLOSE:
                depth -= 1
            elif ch == ";" and depth == 0:
                break
            j += 1
        ins = "\x01".join(l.rstrip() for l in lines if l.strip())
        body = body[:j + 1] + "\x01" + ins + "\x01" + body[j + 1:]
        log.append(f"ghost text inserted after `{lit}`")
    if blk["tail"]:
        # ghost text before the closing brace of a unit-returning body
        check_ghost(blk["tail"], what)
        ins = "\x01".join(l.rstrip() for l in blk["tail"] if l.strip())
        e = body.rstrip().rfind("}")
        body = body[:e] + "\x01" + ins + "\x01" + body[e:]
        log.append("ghost text inserted at body end")
    if blk["body"]:
        check_ghost(blk["body"], what)
        ins = "\x01".join(l.rstrip() for l in blk["body"] if l.strip())
        body = body[0] + "\x01" + ins + "\x01" + body[1:]
        log.append("ghost text inserted at body start")
    return sig, body


CANARY_START = "assert(false); /*CANARY-START*/"


def emit_fn(gen, sf, it, opts, blk, what, in_trait_impl, variant):
    raw = sf.src[it.start:it.end]
    log = []
    sig, body = transform_fn(raw, opts, blk, log, what, in_trait_impl)
    if "external_body" not in opts and body is not None:
        # rule E20: constants of the same source file that the function mentions are extracted too (see flush_consts)
        gen.const_candidates = getattr(gen, "const_candidates", [])
        for nm in sorted(set(re.findall(r"\b[A-Z][A-Z0-9_]{2,}\b", mask(body)))):
            gen.const_candidates.append((sf, nm, what))
    src_line0 = sf.line_of(it.start)
    contract = [l for l in blk["contract"]]
    stub = "external_body" in opts
    if stub:
        log.append("STUB: body dropped, contract assumed (#[verifier::external_body])")
    # signature lines keep a 1:1 line mapping with the source
    sig_lines = sig.rstrip().split("\n")
    nsig = len(sig_lines)
    fname = what
    if stub:
        gen.add("#[verifier::external_body]", {"kind": "gen"})
    gen.add("\n".join(sig_lines), {"kind": "src", "file": sf.rel, "src_line0": src_line0, "fn": fname})
    cur_label = None
    for ln in contract:
        mt = re.search(r"//\s*\[([^\]]+)\]\s*$", ln)
        if mt:
            cur_label = mt.group(1)
        gen.add(ln, {"kind": "contract", "fn": fname, "label": cur_label, "label_here": bool(mt)})
    if stub:
        gen.add("{ unimplemented!() }", {"kind": "gen"})
    else:
        body_line0 = src_line0 + sig.rstrip().count("\n") + (sig.count("\n") - sig.rstrip().count("\n"))
        # where does the body start in the source? line of its `{`
        body_src_line0 = src_line0 + sig.count("\n")
        if variant == "canary-loop":
            # reachability canary at the end of every loop body (a contradictory invariant or stub contract inside a
            # loop would otherwise go unnoticed: the function-level canaries only see the code outside loops)
            offs = loops_in(body)
            mb = mask(body)
            n_loops = 0
            for e in sorted((match_close(mb, o) for o in offs), reverse=True):
                body = body[:e] + " assert(false); /*CANARY-LOOP*/ " + body[e:]
                n_loops += 1
            gen.loop_counts[what] = n_loops
        if variant == "canary-start":
            body = body[0] + " " + CANARY_START + body[1:]
        elif variant == "canary-end":
            # { B }  ->  { let __canary_r = { B }; assert(false); __canary_r }
            body = "{ let __canary_r = " + body.rstrip() + "; assert(false); /*CANARY-END*/ __canary_r }"
        gen.add(body, {"kind": "src", "file": sf.rel, "src_line0": body_src_line0, "fn": fname})
    gen.items.append({
        "item": what, "source": sf.rel, "lines": [src_line0, sf.line_of(it.end)],
        "sha256": hashlib.sha256(raw.encode()).hexdigest()[:16], "rules": log, "stub": stub,
    })
    if not stub:
        gen.functions.append({"fn": what, "labels": labels_of(contract), "source": f"{sf.rel}:{src_line0}", "opaque_constructs": opaque_constructs(body)})
    else:
        gen.trusted.append(f"stub {what} (contract assumed in this unit)")


def opaque_constructs(body):
    """Constructs Verus ACCEPTS but gives no meaning: a closure without a contract (its result is unconstrained) and
    string-literal patterns in a `match`.  An obligation rejected in a function that contains one is undecided - the
    rejection may be due to the missing meaning, not to the code - and is never reported as a violation."""
    if body is None:
        return []
    m = mask(body, literals=False)          # comments blanked, literals kept (needed for the pattern test)
    mm = mask(body)
    out = []
    # closures: `|params|` or `||` in expression position (after `(` `,` `=` `{` `;` `return` `move`), not followed by `->`
    for mt in re.finditer(r"(?:(?<=[(,={;])|(?<=\breturn)|(?<=\bmove))\s*(\|[^|\n]*\|)(?!\s*->)", mm):
        params = mt.group(1)
        after = mm[mt.end():mt.end() + 40]
        if re.match(r"\s*(requires|ensures)\b", after):
            continue
        out.append("closure without a contract: `%s ...`" % params.strip())
    for mt in re.finditer(r"\bmatch\b[^{;]*\{", mm):
        end = match_close(mm, mt.end() - 1)
        arms = m[mt.end():end]
        if re.search(r'(?:^|[,{|]|\n)\s*"[^"\n]*"\s*(?:\|\s*"[^"\n]*"\s*)*=>', arms):
            out.append("string-literal pattern in a match")
    # a loop that carries no invariant (the unit's template has no `@loop` block for it: typically a loop an edit introduced):
    # Verus forgets everything the loop may modify, so a postcondition rejected after it says nothing about the code
    try:
        offs = loops_in(body)
    except Exception:
        offs = []
    for k, o in enumerate(offs, 1):
        kws = [mt.start() for mt in re.finditer(r"\b(for|while|loop)\b", mm[:o])]
        if kws and "invariant" not in mm[kws[-1]:o]:
            out.append("loop %d without an invariant" % k)
    return sorted(set(out))


def emit_item(gen, sf, it, opts, blk, what):
    raw = sf.src[it.start:it.end]
    log = []
    text = rule_E1_attrs(raw, log)
    if "keepvis" not in opts:
        text = rule_E4_vis(text, it.kind, False, log)
    text = apply_rewrites(text, blk["rewrites"], log, what)
    src_line0 = sf.line_of(it.start)
    gen.add(text, {"kind": "src", "file": sf.rel, "src_line0": src_line0, "fn": what})
    gen.items.append({
        "item": what, "source": sf.rel, "lines": [src_line0, sf.line_of(it.end)],
        "sha256": hashlib.sha256(raw.encode()).hexdigest()[:16], "rules": log, "stub": False,
    })


CONST_FILES = ["teos-common/src/lib.rs", "teos-common/src/constants.rs", "teos-common/src/appointment.rs", "teos-common/src/errors.rs",
               "watchtower-plugin/src/constants.rs"]


def flush_consts(gen):
    """Rule E20: a `const` item of the same source file (or of one of the crate-level constant files) that a function under contract mentions, and that the unit does
    not define already (by an explicit `//@ extract .. const` or by hand), is extracted verbatim.  This keeps an edit
    that introduces a named constant decidable instead of ending as `unknown identifier`."""
    done = set()
    for sf, nm, what in getattr(gen, "const_candidates", []):
        if nm in done:
            continue
        if re.search(r"\b(const|static)\s+%s\b" % re.escape(nm), mask(gen.text())):
            done.add(nm)
            continue
        it = None
        # the constant's own file first, then the crate-level constant files it may be imported from
        for cand in [sf] + [SourceFile.get(f) for f in CONST_FILES if f != sf.rel and os.path.exists(os.path.join(REPO, f))]:
            try:
                it = cand.find("const " + nm)
                sf = cand
                break
            except ExtractError:
                continue
        if it is None:
            continue
        done.add(nm)
        raw = sf.src[it.start:it.end]
        log = ["E20 constant mentioned by %s, extracted verbatim" % what]
        text = rule_E4_vis(rule_E1_attrs(raw, log), "const", False, log)
        if re.search(r":\s*&\s*str\b", text):
            # Verus turns a const into a function and then wants the elided lifetime spelled out
            text = re.sub(r":\s*&\s*str\b", ": &'static str", text, count=1)
            log.append("E20 elided `'static` lifetime of the constant's type spelled out")
        gen.add(text, {"kind": "src", "file": sf.rel, "src_line0": sf.line_of(it.start), "fn": "const " + nm})
        gen.items.append({"item": "const " + nm, "source": sf.rel, "lines": [sf.line_of(it.start), sf.line_of(it.end)],
                          "sha256": hashlib.sha256(raw.encode()).hexdigest()[:16], "rules": log, "stub": False})


def generate(template_path, variant="main"):
    """variant: main | canary-start | canary-end"""
    gen = Generated()
    _process(template_path, gen, variant)
    # trusted-base scan over the generated text
    txt = gen.text()
    m = mask(txt)
    for mt in re.finditer(r"\b(assume_specification|external_body|admit\s*\(|assume\s*\(|external_fn_specification|external_type_specification|external\b)", m):
        ln = txt.count("\n", 0, mt.start())
        gen.trusted.append(None)  # placeholder count; detailed list built by runner
    gen.trusted = [t for t in gen.trusted if t]
    return gen


TAG_RE = re.compile(r"//\s*@(finding|carveout)\s+(F\d+)\s*$")


def _variant_filter(lines, variant, gen):
    """`... // @finding Fx` lines exist only in the `findings` variant (clauses expected to fail: the
    finding itself); `... // @carveout Fx` lines exist only in the other variants (the exclusion under
    which everything else is proved)."""
    out = []
    for ln in lines:
        mt = TAG_RE.search(ln)
        if mt:
            gen.finding_tags.add(mt.group(2))
            keep = (variant == "findings") == (mt.group(1) == "finding")
            if not keep:
                continue
            ln = ln[:mt.start()].rstrip()
        out.append(ln)
    return out


def _process(template_path, gen, variant):
    rel_t = os.path.relpath(template_path, VERIF)
    lines = open(template_path, encoding="utf-8").read().split("\n")
    lines = _variant_filter(lines, variant, gen)
    i = 0
    while i < len(lines):
        ln = lines[i]
        s = ln.strip()
        if not s.startswith("//@"):
            gen.add(ln, {"kind": "tmpl", "file": rel_t, "line": i + 1})
            i += 1
            continue
        d = s[3:].strip()
        if d.startswith("include "):
            inc = os.path.join(VERIF, d[len("include "):].strip())
            if os.path.basename(inc) == "tail.rs":
                flush_consts(gen)
            _process(inc, gen, variant)
            i += 1
        elif d.startswith("extract "):
            parts = split_opts(d[len("extract "):])
            rel = parts[0]
            j = i + 1
            blk_lines = []
            while j < len(lines) and lines[j].strip() != "//@ end":
                if lines[j].strip().startswith("//@"):
                    raise ExtractError("bad-template", f"{rel_t}:{j+1}: nested directive inside extract block")
                blk_lines.append(lines[j])
                j += 1
            if j >= len(lines):
                raise ExtractError("bad-template", f"{rel_t}:{i+1}: extract without end")
            blk = parse_block(blk_lines)
            sf = SourceFile.get(rel)
            if parts[1].startswith("in "):
                # `:: in mod a/fn f ::` selects among the items nested in that inline module / function body
                sf = sf.scoped(parts[1][3:])
                parts = [parts[0]] + parts[2:]
            sel = parts[1]
            rest = parts[2:]
            for o in list(rest):
                if o.startswith("contract_of="):
                    # modularity: reuse, verbatim, the contract that unit <name> proves on the real body
                    other = os.path.join(VERIF, "units", o[len("contract_of="):], "unit.rs.tmpl")
                    blk["contract"] = contract_of(other, rel, sel, [x for x in rest if x.startswith("fn ")], variant, gen) + blk["contract"]
            if re.match(r"impl\b", sel):
                impl = sf.find_impl(sel)
                what = rest[0]
                opts = rest[1:]
                in_trait_impl = " for " in impl.header
                if what == "header":
                    raw = sf.src[impl.start:impl.body_open + 1]
                    log = []
                    text = rule_E1_attrs(raw, log)
                    text = apply_rewrites(text, blk["rewrites"], log, sel)
                    gen.add(text, {"kind": "src", "file": rel, "src_line0": sf.line_of(impl.start), "fn": sel})
                    gen.items.append({"item": sel + " (header)", "source": rel, "lines": [sf.line_of(impl.start), sf.line_of(impl.body_open)],
                                      "sha256": hashlib.sha256(raw.encode()).hexdigest()[:16], "rules": log, "stub": False})
                elif what.startswith("fn "):
                    name = what[3:].strip()
                    cands = [x for x in sf.impl_items(impl) if x.kind == "fn" and x.name == name]
                    if len(cands) != 1:
                        raise ExtractError("lost-anchor", f"{rel}: `{sel}` has {len(cands)} methods named {name}")
                    tyname = _impl_type_name(impl.header)
                    emit_fn(gen, sf, cands[0], opts, blk, f"{tyname}::{name}", in_trait_impl, variant)
                else:
                    raise ExtractError("bad-template", f"{rel_t}:{i+1}: bad impl sub-selector `{what}`")
            else:
                it = sf.find(sel)
                opts = rest
                if it.kind == "fn":
                    emit_fn(gen, sf, it, opts, blk, it.name, False, variant)
                else:
                    emit_item(gen, sf, it, opts, blk, f"{it.kind} {it.name}")
            i = j + 1
        elif d.startswith("transcribes "):
            # `//@ transcribes <repo path> :: impl X :: fn f :: sha=<16 hex>` in front of a hand-written stub whose contract
            # transcribes the body of the named function (SQL statements of the DBMs).  The body is not under contract, but
            # if its text is no longer the text that was transcribed the stub can no longer be trusted: undecided (exit 2).
            parts = split_opts(d[len("transcribes "):])
            rel, sel = parts[0], parts[1]
            sf = SourceFile.get(rel)
            sha = [x for x in parts if x.startswith("sha=")]
            want = sha[0][4:] if sha else ""
            if re.match(r"impl\b", sel):
                impl = sf.find_impl(sel)
                name = [x for x in parts[2:] if x.startswith("fn ")][0][3:].strip()
                cands = [x for x in sf.impl_items(impl) if x.kind == "fn" and x.name == name]
                if len(cands) != 1:
                    raise ExtractError("lost-anchor", f"{rel}: `{sel}` has {len(cands)} methods named {name} (transcribed by a stub)")
                it = cands[0]
                what = _impl_type_name(impl.header) + "::" + name
            else:
                it = sf.find(sel)
                what = it.name
            raw = sf.src[it.start:it.end]
            got = hashlib.sha256(raw.encode()).hexdigest()[:16]
            gen.transcribed = getattr(gen, "transcribed", [])
            gen.transcribed.append({"item": what, "source": rel, "sha256": got, "expected": want})
            if got != want and not os.environ.get("VERIF_IGNORE_TRANSCRIPTIONS"):
                raise ExtractError("stale-transcription", f"{rel}: the text of {what} changed since its stub contract was transcribed "
                                   f"(sha {got}, transcribed {want or 'never'}): the stub is no longer known to describe it")
            gen.trusted.append(f"stub contract transcribes {rel} {what} (text unchanged since transcription, sha {got})")
            i += 1
        elif d.startswith("#") or d == "":
            i += 1
        else:
            raise ExtractError("bad-template", f"{rel_t}:{i+1}: unknown directive `{d}`")


def contract_of(template_path, rel, sel, fnsel, variant, gen):
    lines = open(template_path, encoding="utf-8").read().split("\n")
    lines = _variant_filter(lines, variant, gen)
    want = [rel, sel] + fnsel
    i = 0
    while i < len(lines):
        s = lines[i].strip()
        if s.startswith("//@ extract "):
            parts = split_opts(s[len("//@ extract "):])
            key = parts[:2] + [x for x in parts[2:] if x.startswith("fn ")]
            j = i + 1
            blk_lines = []
            while j < len(lines) and lines[j].strip() != "//@ end":
                blk_lines.append(lines[j])
                j += 1
            if key == want and "external_body" not in parts:
                return parse_block(blk_lines)["contract"]
            i = j
        i += 1
    raise ExtractError("bad-template", f"contract_of: no proving block for {want} in {template_path}")


def _impl_type_name(header):
    h = re.split(r"\bwhere\b", header)[0]
    h = re.sub(r"^impl\s*(<[^>]*>)?\s*", "", h).strip()
    if " for " in h:
        h = h.split(" for ", 1)[1].strip()
    return re.match(r"[A-Za-z_][A-Za-z0-9_:]*", h).group(0).split("::")[-1]


if __name__ == "__main__":
    import json
    g = generate(sys.argv[1], sys.argv[2] if len(sys.argv) > 2 else "main")
    sys.stdout.write(g.text())
    sys.stderr.write(json.dumps(g.items, indent=1) + "\n")
