#!/usr/bin/env python3
"""Re-run every registered quick check against the stored seeded changes (/verif/seeded/<id>/patch.diff).

usage: seed_reeval.py [seeded-id ...]      (default: all)

Each change is applied in a scratch worktree outside /repo and /verif (removed afterwards) and the checks are pointed
at it with VERIF_REPO; this is the same as `git -C /repo apply` / checks / `git -C /repo checkout -- .` but leaves
/repo alone.  Only the `checks`, `detected_by`, `undecided_in` and `reevaluated_at_verif_commit` fields of meta.json
are rewritten.  Prints one table row per change.
"""
import json, os, subprocess, sys, time, shutil
VERIF = os.path.dirname(os.path.dirname(os.path.abspath(__file__)))
WT = "/tmp/reeval_wt"
SCR = {"VERIF_BUILD": "/tmp/reeval_build", "VERIF_EVID": "/tmp/reeval_evid", "VERIF_REPLAYS": "/tmp/reeval_replays"}


def sh(cmd, cwd=None):
    r = subprocess.run(cmd, shell=True, cwd=cwd, capture_output=True, text=True)
    return r.returncode, r.stdout + r.stderr


ids = sys.argv[1:] or sorted(os.listdir(os.path.join(VERIF, "seeded")))
# the checks are run from a snapshot of the committed /verif tree, so that work going on in /verif cannot disturb them
SNAP = "/tmp/reeval_verif"
shutil.rmtree(SNAP, ignore_errors=True)
os.makedirs(SNAP)
rc, o = sh("git -C %s archive HEAD | tar -x -C %s" % (VERIF, SNAP))
assert rc == 0, o
sh("git -C /repo worktree remove --force %s" % WT)
rc, o = sh("git -C /repo worktree add -q --detach %s HEAD" % WT)
assert rc == 0, o
for d in SCR.values():
    os.makedirs(d, exist_ok=True)
env = dict(os.environ, VERIF_REPO=WT, **SCR)
man = json.load(open(os.path.join(SNAP, "MANIFEST.json")))
head = sh("git -C %s rev-parse --short HEAD" % VERIF)[1].strip()
try:
    for sid in ids:
        d = os.path.join(VERIF, "seeded", sid)
        mp = os.path.join(d, "meta.json")
        if not os.path.exists(mp):
            continue
        meta = json.load(open(mp))
        rc, o = sh("git apply %s" % os.path.join(d, "patch.diff"), cwd=WT)
        if rc != 0:
            print("%s: patch does not apply: %s" % (sid, o.strip()[:200]))
            continue
        det = {}
        try:
            for c in man["checks"]:
                pid = c["property_id"]
                t0 = time.time()
                r = subprocess.run(c["quick_cmd"], shell=True, cwd=SNAP, capture_output=True, text=True, timeout=3600, env=env)
                lines = [l for l in r.stdout.splitlines() if l.startswith(("VIOLATION", "failed obligation", "UNDECIDED"))]
                det[pid] = {"exit": r.returncode, "lines": [l[:400] for l in lines[:6]], "wall_s": round(time.time() - t0, 1)}
        finally:
            sh("git checkout -- . && git clean -fdq", cwd=WT)
        meta["checks"] = det
        meta["detected_by"] = sorted(p for p, v in det.items() if v["exit"] == 1)
        meta["undecided_in"] = sorted(p for p, v in det.items() if v["exit"] == 2)
        meta["reevaluated_at_verif_commit"] = head
        json.dump(meta, open(mp, "w"), indent=1)
        own = meta.get("property")
        print("%-8s own=%s detected_by=%s undecided_in=%s own_exit=%s" % (sid, own, ",".join(meta["detected_by"]) or "-",
              ",".join(meta["undecided_in"]) or "-", det.get(own, {}).get("exit")))
        sys.stdout.flush()
finally:
    sh("git -C /repo worktree remove --force %s" % WT)
    for d in list(SCR.values()) + [SNAP]:
        shutil.rmtree(d, ignore_errors=True)
