#!/usr/bin/env python3
"""dev helper: generate a unit and run verus on it, printing human-readable diagnostics"""
import sys, os, subprocess
sys.path.insert(0, os.path.dirname(os.path.abspath(__file__)))
import extract
unit = sys.argv[1]
variant = sys.argv[2] if len(sys.argv) > 2 else "main"
g = extract.generate(os.path.join(extract.VERIF, "units", unit, "unit.rs.tmpl"), variant)
os.makedirs(os.path.join(extract.VERIF, "build"), exist_ok=True)
out = os.path.join(extract.VERIF, "build", f"{unit}__{variant.replace(chr(45), chr(95))}.rs")
open(out, "w").write(g.text())
r = subprocess.run(["verus", out, "--multiple-errors", "5"] + sys.argv[3:], cwd=os.path.join(extract.VERIF, "build"))
sys.exit(r.returncode)
