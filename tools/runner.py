#!/usr/bin/env python3
"""Runs the contract units that serve one property, classifies the verifier output and writes
evidence.   usage: runner.py <Cxx> [--tier quick|thorough]

exit 0  every obligation generated from /repo's current source was discharged (known findings are
        printed as KNOWN-FINDING lines)
exit 1  an obligation that the contracts require was rejected by the solver  -> VIOLATION line
exit 2  undecided: lost anchor, unsupported construct, rlimit/timeout, vacuity guard tripped
"""
import concurrent.futures as cf
import hashlib
import json
import os
import re
import shutil
import subprocess
import sys
import time

HERE = os.path.dirname(os.path.abspath(__file__))
sys.path.insert(0, HERE)
import extract  # noqa: E402

VERIF = extract.VERIF
REPO = extract.REPO
# (the three directories can be redirected for side runs, e.g. evaluating a seeded change in a scratch worktree
#  with VERIF_REPO pointing at it, without disturbing /verif/build, /verif/evidence and /repo)
BUILD = os.environ.get("VERIF_BUILD", os.path.join(VERIF, "build"))
EVID = os.environ.get("VERIF_EVID", os.path.join(VERIF, "evidence"))
REPLAYS = os.environ.get("VERIF_REPLAYS", os.path.join(VERIF, "replays"))

VERIFICATION_MSGS = (
    "postcondition not satisfied", "precondition not satisfied", "assertion failed",
    "invariant not satisfied", "loop invariant", "possible arithmetic", "possible division by zero",
    "possible bit shift", "decreases not satisfied", "termination", "unreachable", "recommendation not met",
    "could not prove", "unable to prove", "possible", "failed",
)
UNDECIDED_MSGS = ("Resource limit (rlimit) exceeded", "rlimit", "timed out", "timeout")


def load_units():
    return json.load(open(os.path.join(VERIF, "units", "index.json")))



def contracted_functions(units):
    """(repo path, fn name) of every function whose body is under contract (not a stub) in the given units"""
    res = set()
    for u in units:
        if u.get("engine") != "verus":
            continue
        t = open(os.path.join(VERIF, u["template"])).read()
        for m in re.finditer(r"^//@ extract (\S+) :: (.*)$", t, re.M):
            if "external_body" in m.group(2):
                continue
            mm = re.search(r"\bfn (\w+)", m.group(2))
            if mm:
                res.add((m.group(1), mm.group(1)))
    return res


def frame_scan(scan, units):
    """Syntactic frame condition: every non-test occurrence of `pattern` under `root` must lie inside a function that is
    under contract in one of the units serving the property (so that its effect is covered by a proved contract).
    Returns the list of call sites outside the functions under contract."""
    allowed = contracted_functions(units)
    outside, inside = [], 0
    root = os.path.join(extract.REPO, scan["root"])
    pat = re.compile(scan["pattern"])
    for dp, _dn, fns in os.walk(root):
        for fn in fns:
            if not fn.endswith(".rs"):
                continue
            path = os.path.join(dp, fn)
            rel = os.path.relpath(path, extract.REPO)
            src = open(path).read()
            m = extract.mask(src)
            # test modules are out of scope
            skip = []
            for t in re.finditer(r"#\[cfg\(test\)\]\s*(?:pub\s+)?mod\s+\w+\s*\{", m):
                o = t.end() - 1
                skip.append((t.start(), extract.match_close(m, o)))
            fns_r = []
            for f in re.finditer(r"\bfn\s+(\w+)", m):
                j = f.end()
                depth = 0
                while j < len(m):
                    ch = m[j]
                    if ch in "([":
                        depth += 1
                    elif ch in ")]":
                        depth -= 1
                    elif ch == "{" and depth == 0:
                        fns_r.append((f.start(), extract.match_close(m, j), f.group(1)))
                        break
                    elif ch == ";" and depth == 0:
                        break
                    j += 1
            for h in pat.finditer(m):
                if any(a <= h.start() <= b for a, b in skip):
                    continue
                encl = [x for x in fns_r if x[0] <= h.start() <= x[1]]
                name = min(encl, key=lambda x: x[1] - x[0])[2] if encl else "?"
                if name == scan.get("callee_self"):
                    inside += 1        # the primitive's own definition / recursion
                    if (rel, name) not in allowed:
                        outside.append("%s:%d in fn %s" % (rel, src.count("\n", 0, h.start()) + 1, name))
                    continue
                if (rel, name) in allowed:
                    inside += 1
                else:
                    outside.append("%s:%d in fn %s" % (rel, src.count("\n", 0, h.start()) + 1, name))
    return inside, outside


def load_known():
    p = os.path.join(VERIF, "known_findings.json")
    if os.path.exists(p):
        return json.load(open(p))
    return {"findings": []}


def norm_src(s):
    return re.sub(r"\s+", " ", s).strip()


# ----------------------------------------------------------------------------------------------
def run_verus(path, rlimit=None, extra=()):
    cmd = ["verus", path, "--output-json", "--time", "--error-format=json", "--multiple-errors", "20"]
    if rlimit:
        cmd += ["--rlimit", str(rlimit)]
    cmd += list(extra)
    t0 = time.time()
    try:
        r = subprocess.run(cmd, cwd=BUILD, capture_output=True, text=True, timeout=900)
    except subprocess.TimeoutExpired:
        return {"cmd": " ".join(cmd), "timeout": True, "wall": time.time() - t0}
    res = {"cmd": " ".join(cmd), "rc": r.returncode, "wall": time.time() - t0, "timeout": False}
    try:
        res["json"] = json.loads(r.stdout)
    except Exception:
        res["json"] = None
        res["stdout"] = r.stdout[-4000:]
    diags = []
    for ln in r.stderr.splitlines():
        ln = ln.strip()
        if ln.startswith("{"):
            try:
                d = json.loads(ln)
                if d.get("$message_type") == "diagnostic":
                    diags.append(d)
            except Exception:
                pass
    res["diags"] = diags
    res["stderr_tail"] = r.stderr[-3000:] if not diags else ""
    return res


def gen_unit(unit, variant):
    tmpl = os.path.join(VERIF, unit["template"])
    g = extract.generate(tmpl, variant)
    os.makedirs(BUILD, exist_ok=True)
    name = "%s__%s.rs" % (unit["name"], variant.replace("-", "_"))
    path = os.path.join(BUILD, name)
    with open(path, "w") as f:
        f.write(g.text())
    return g, path


def crate_name(path):
    return os.path.basename(path)[:-3]


def classify_diag(d, g):
    """returns (kind, obligation dict) ; kind in verification | undecided | tool-error | note"""
    lvl = d.get("level")
    msg = d.get("message", "")
    if lvl != "error":
        return "note", None
    if msg.startswith("aborting due to"):
        return "note", None
    if any(u in msg for u in UNDECIDED_MSGS):
        return "undecided", {"msg": msg}
    spans = d.get("spans", [])
    prim = [s for s in spans if s.get("is_primary")]
    sec = [s for s in spans if not s.get("is_primary")]
    if d.get("code") is not None:  # rustc error with an error code => not a proof failure
        return "tool-error", {"msg": msg, "rendered": d.get("rendered", "")[:1500]}
    is_verif = any(m in msg for m in VERIFICATION_MSGS)
    if not is_verif or not prim:
        return "tool-error", {"msg": msg, "rendered": d.get("rendered", "")[:1500]}

    def origin(sp):
        ln = sp["line_start"] - 1
        if 0 <= ln < len(g.origin):
            return g.origin[ln], g.lines[ln]
        return {"kind": "?"}, ""

    po, ptext = origin(prim[0])
    ob = {"msg": msg, "fn": po.get("fn"), "label": None, "where": None, "src": None, "gen_line": prim[0]["line_start"]}
    # a labelled contract clause anywhere among the spans names the obligation
    for sp in prim + sec:
        o, _t = origin(sp)
        if o.get("kind") == "contract":
            # labels written on the lines the span covers win over a label carried from an earlier clause
            here = []
            for ln in range(sp["line_start"] - 1, min(sp["line_end"], len(g.origin))):
                oo = g.origin[ln]
                if oo.get("kind") == "contract" and oo.get("label_here") and oo["label"] not in here:
                    here.append(oo["label"])
            lab = "+".join(here) if here else o.get("label")
            if lab:
                ob["label"] = lab
                ob["label_fn"] = o.get("fn")
                break
    if po.get("kind") == "src":
        ob["where"] = "%s:%s" % (po.get("file"), po.get("src_line"))
        ob["src"] = norm_src(ptext)
    elif po.get("kind") == "contract":
        ob["where"] = "contract of %s" % po.get("fn")
        # the function whose body failed: secondary span inside a src line
        for sp in sec:
            o, _t = origin(sp)
            if o.get("kind") == "src" and o.get("fn"):
                ob["fn"] = o["fn"]
                break
    elif po.get("kind") == "tmpl":
        ob["where"] = "%s:%s" % (po.get("file"), po.get("line"))
        ob["src"] = norm_src(ptext)
        ob["fn"] = ob["fn"] or "<template>"
    # for "precondition not satisfied" the primary span is the call site; fn = enclosing function
    if "precondition" in msg and po.get("kind") == "src":
        ob["fn"] = po.get("fn")
    return "verification", ob


def obligation_id(unit, ob):
    fn = ob.get("fn") or "?"
    if ob.get("label"):
        lab = ob["label"]
        if ob.get("label_fn") and ob["label_fn"] != fn:
            return "%s::%s::call %s[%s]" % (unit, fn, ob["label_fn"], lab)
        return "%s::%s::[%s]" % (unit, fn, lab)
    kind = re.sub(r"[^a-z]+", "-", ob["msg"].lower()).strip("-")
    return "%s::%s::body:%s:`%s`" % (unit, fn, kind, (ob.get("src") or "")[:120])


def props_of_label(label):
    """`C07.charge-diff`, `C07,C08.x`, `pre.wf`, `C19.x A2` -> set of property ids"""
    ps = set()
    for part in label.split("+"):
        head = part.split(".")[0]
        ps |= set(p for p in re.split(r"[ ,]+", head) if re.fullmatch(r"C\d\d", p))
    return ps


def fn_props(g, unit):
    """function -> properties it serves (from its labels, plus unit-level serves_all)"""
    m = {}
    for f in g.functions:
        ps = set()
        for lab in f["labels"]:
            ps |= props_of_label(lab)
        if not ps:
            # a function under contract whose clauses carry no property label (constructors, small accessors) supports every
            # property of its unit: a failure in it must not be attributed to the `serves_all` properties only
            ps = set(unit.get("serves", []))
        ps |= set(unit.get("serves_all", []))
        m[f["fn"]] = ps
    return m


def trusted_scan(g):
    txt = g.text()
    m = extract.mask(txt)
    out = []
    for mt in re.finditer(r"\b(assume_specification|external_body|admit|assume|external_type_specification|external_fn_specification)\b", m):
        ln = txt.count("\n", 0, mt.start())
        kind = mt.group(1)
        name = None
        if kind in ("admit", "assume"):
            # enclosing function: nearest `fn name` above
            for k in range(ln, max(-1, ln - 40), -1):
                nm = re.search(r"\bfn\s+([A-Za-z_0-9]+)", g.lines[k])
                if nm:
                    name = nm.group(1)
                    break
        else:
            ctx = " ".join(x.strip() for x in g.lines[ln:ln + 6])
            nm = re.search(r"\[([^\]]+)\]", ctx) if kind == "assume_specification" else re.search(r"\bfn\s+([A-Za-z_0-9]+)", ctx)
            name = nm.group(1) if nm else None
        out.append("%s: %s" % (kind, (name or "?").strip()))
    return sorted(set(out))


# ----------------------------------------------------------------------------------------------
def run_unit_verus(unit, tier):
    """returns dict with everything the property-level logic needs"""
    res = {"unit": unit["name"], "engine": "verus", "undecided": [], "failed": [], "functions": [], "vcs": [],
           "items": [], "trusted": [], "cmds": [], "smt_ms": 0, "wall": 0.0, "canary": {}}
    try:
        g, path = gen_unit(unit, "main")
        gs, ps = gen_unit(unit, "canary-start")
        ge, pe = gen_unit(unit, "canary-end")
        gl, pl = gen_unit(unit, "canary-loop")
    except extract.ExtractError as e:
        res["undecided"].append("extraction: %s" % e)
        return res
    res["items"] = g.items
    res["functions"] = g.functions
    res["trusted"] = trusted_scan(g) + g.trusted
    res["fn_props"] = {k: sorted(v) for k, v in fn_props(g, unit).items()}
    res["gen_sha256"] = hashlib.sha256(g.text().encode()).hexdigest()[:16]
    rl = unit.get("rlimit")
    res["finding_tags"] = sorted(g.finding_tags)
    res["failed_findings_variant"] = []
    with cf.ThreadPoolExecutor(max_workers=5) as ex:
        fm = ex.submit(run_verus, path, rl)
        fs = ex.submit(run_verus, ps, rl)
        fe = ex.submit(run_verus, pe, rl)
        fl = ex.submit(run_verus, pl, rl) if sum(gl.loop_counts.values()) else None
        ff = None
        if g.finding_tags:
            gf, pf = gen_unit(unit, "findings")
            ff = ex.submit(run_verus, pf, rl)
        rm, rs, re_ = fm.result(), fs.result(), fe.result()
        rf = ff.result() if ff else None
        rlp = fl.result() if fl else None
    if rf is not None:
        if rf.get("timeout") or not rf.get("json") or rf["json"].get("verification-results", {}).get("encountered-vir-error"):
            res["undecided"].append("findings variant could not be verified (tool error)")
        else:
            seenf = {}
            for d in rf["diags"]:
                kind, ob = classify_diag(d, gf)
                if kind == "verification":
                    ob["id"] = obligation_id(unit["name"], ob)
                    ob["rendered"] = d.get("rendered", "")[:2500]
                    seenf.setdefault(ob["id"], ob)
                elif kind == "undecided":
                    res["undecided"].append("findings variant: solver gave up: %s" % ob["msg"])
            res["failed_findings_variant"] = list(seenf.values())
    res["cmds"] = [rm["cmd"]]
    res["wall"] = rm["wall"]
    if rm.get("timeout"):
        res["undecided"].append("verus timed out on %s" % path)
        return res
    j = rm.get("json")
    if not j:
        res["undecided"].append("verus produced no JSON: %s" % (rm.get("stdout", "") + rm.get("stderr_tail", ""))[-800:])
        return res
    vr = j.get("verification-results", {})
    res["verus_verified"] = vr.get("verified", 0)
    res["verus_errors"] = vr.get("errors", 0)
    cn = crate_name(path)
    try:
        for mod in j["times-ms"]["smt"]["smt-run-module-times"]:
            for fb in mod.get("function-breakdown", []):
                res["vcs"].append({"fn": fb["function"].replace(cn + "::", ""), "mode": fb.get("mode:"), "ok": fb["success"],
                                   "ms": fb["time"], "rlimit": fb["rlimit"]})
        res["smt_ms"] = j["times-ms"]["smt"]["total"]
    except Exception:
        pass
    if vr.get("encountered-vir-error"):
        rend = [d.get("rendered", "") for d in rm["diags"] if d.get("level") == "error"]
        res["undecided"].append("verus rejected the unit before verification (unsupported construct / type error): %s" % "".join(rend)[:1500])
        return res
    for d in rm["diags"]:
        kind, ob = classify_diag(d, g)
        if kind == "verification":
            ob["id"] = obligation_id(unit["name"], ob)
            ob["rendered"] = d.get("rendered", "")[:2500]
            res["failed"].append(ob)
        elif kind == "undecided":
            res["undecided"].append("solver gave up: %s" % ob["msg"])
        elif kind == "tool-error":
            res["undecided"].append("tool error: %s" % (ob.get("rendered") or ob["msg"]))
    if not vr.get("success") and not res["failed"] and not res["undecided"]:
        res["undecided"].append("verus reported failure without a classifiable diagnostic: %s" % rm.get("stderr_tail", "")[-800:])
    # de-duplicate failures by id
    seen = {}
    for ob in res["failed"]:
        seen.setdefault(ob["id"], ob)
    res["failed"] = list(seen.values())
    # An obligation rejected in a function that contains a construct Verus accepts without giving it a meaning (a closure
    # without a contract, a string-literal match pattern) is undecided: the rejection may come from the missing meaning.
    # Constructs of that kind that are present on the unchanged tree (units/opaque_baseline.json, written by
    # tools/opaque_baseline.py) are known not to matter - every obligation is discharged with them; only NEW ones count.
    try:
        base = json.load(open(os.path.join(VERIF, "units", "opaque_baseline.json"))).get(unit["name"], {})
    except Exception:
        base = {}
    opaque = {f["fn"]: [c for c in f.get("opaque_constructs", []) if c not in base.get(f["fn"], [])] for f in g.functions}
    keep = []
    for ob in res["failed"]:
        oc = opaque.get(ob.get("fn"), [])
        if oc:
            res["undecided"].append("%s: rejected, but the function contains %s, which Verus accepts without a meaning: undecided, not a violation" % (ob["id"], "; ".join(oc)))
        else:
            keep.append(ob)
    res["failed"] = keep
    # A genuine violation is rejected whatever the solver's search order; an obligation rejected only under
    # some seeds is a brittle proof, reported as undecided and never as a violation.
    if res["failed"]:
        confirmed = set(ob["id"] for ob in res["failed"])
        # ... and whatever unrelated declarations surround it: the third re-run verifies the same text with three unused
        # declarations added in front (this changes the solver's symbol numbering the way an unrelated prelude edit does)
        padded = path.replace(".rs", "__padded.rs")
        pad = "".join("pub struct Pad%d(pub u64); impl Pad%d { pub open spec fn pad(&self) -> bool { self.0 > %d } } " % (i, i, i) for i in range(3))
        with open(padded, "w") as fh:
            fh.write(open(path).read().replace("verus! {", "verus! { " + pad, 1))
        for seed, pth in ((1, path), (2, path), (0, padded)):
            rr = run_verus(pth, 30, ["--smt-option", "smt.random_seed=%d" % seed])
            ids = set()
            if rr.get("json") and not rr.get("timeout"):
                for d in rr["diags"]:
                    kind, ob = classify_diag(d, g)
                    if kind == "verification":
                        ids.add(obligation_id(unit["name"], ob))
                if rr["json"].get("verification-results", {}).get("success"):
                    ids = set()
            else:
                ids = confirmed
            confirmed &= ids
        for ob in res["failed"]:
            if ob["id"] not in confirmed:
                res["undecided"].append("brittle proof (rejected under the default solver seed, accepted under another seed or with unrelated declarations added): %s" % ob["id"])
        res["failed"] = [ob for ob in res["failed"] if ob["id"] in confirmed]
        res["seed_retries"] = 3
        try:
            os.remove(padded)
        except OSError:
            pass
    # ---- vacuity guards: every function under contract must FAIL both canaries
    res["canary"] = {"start": canary_check(rs, gs, "CANARY-START"), "end": canary_check(re_, ge, "CANARY-END")}
    if rlp is not None:
        res["canary"]["loop"] = canary_loop_check(rlp, gl)
        c = res["canary"]["loop"]
        if c.get("error"):
            res["undecided"].append("vacuity guard (loop) could not run: %s" % c["error"])
        for fn in c.get("not_rejected", []):
            res["undecided"].append("VACUOUS: `assert(false)` at the end of a loop body of %s was accepted" % fn)
    for which in ("start", "end"):
        c = res["canary"][which]
        if c.get("error"):
            res["undecided"].append("vacuity guard (%s) could not run: %s" % (which, c["error"]))
        for fn in c.get("not_rejected", []):
            if which == "end" and fn in unit.get("canary_end_exempt", []):
                continue
            res["undecided"].append("VACUOUS: `assert(false)` at the %s of %s was accepted (contradictory precondition/stub contract or unreachable end)" % (which, fn))
    return res


def canary_check(r, g, marker):
    if r.get("timeout") or not r.get("json"):
        return {"error": "no result"}
    te = _canary_tool_error(r)
    if te:
        return {"error": "canary variant did not compile: " + te}
    if r["json"].get("verification-results", {}).get("encountered-vir-error"):
        rend = [d.get("rendered", "") for d in r["diags"] if d.get("level") == "error"]
        return {"error": "canary variant rejected before verification: " + "".join(rend)[:600]}
    rejected = set()
    for d in r["diags"]:
        if d.get("level") != "error" or "assertion failed" not in d.get("message", ""):
            continue
        for sp in d.get("spans", []):
            if not sp.get("is_primary"):
                continue
            ln = sp["line_start"] - 1
            txts = " ".join(t.get("text", "") for t in sp.get("text", []))
            if 0 <= ln < len(g.origin) and (marker in g.lines[ln] or marker in txts or "assert(false)" in txts):
                fn = g.origin[ln].get("fn")
                if fn:
                    rejected.add(fn)
    fns = [f["fn"] for f in g.functions]
    return {"functions": len(fns), "rejected": len([f for f in fns if f in rejected]),
            "not_rejected": [f for f in fns if f not in rejected]}


def _canary_tool_error(r):
    """a canary variant must fail only through `assertion failed` diagnostics; anything else means it did not run properly"""
    for d in r.get("diags", []):
        if d.get("level") == "error" and not d.get("message", "").startswith("aborting due to"):
            msg = d.get("message", "")
            if d.get("code") is not None or not any(m in msg for m in VERIFICATION_MSGS):
                return msg + " " + d.get("rendered", "")[:400]
    return None


def canary_loop_check(r, g):
    if r.get("timeout") or not r.get("json"):
        return {"error": "no result"}
    te = _canary_tool_error(r)
    if te:
        return {"error": "canary variant did not compile: " + te}
    if r["json"].get("verification-results", {}).get("encountered-vir-error"):
        rend = [d.get("rendered", "") for d in r["diags"] if d.get("level") == "error"]
        return {"error": "canary variant rejected before verification: " + "".join(rend)[:600]}
    rejected_lines = set()
    for d in r["diags"]:
        if d.get("level") != "error" or "assertion failed" not in d.get("message", ""):
            continue
        for sp in d.get("spans", []):
            if sp.get("is_primary"):
                rejected_lines.add(sp["line_start"] - 1)
    want = [(i, g.origin[i].get("fn")) for i, ln in enumerate(g.lines) if "CANARY-LOOP" in ln]
    missing = sorted(set(fn for i, fn in want if i not in rejected_lines))
    return {"loops": len(want), "rejected": len([1 for i, fn in want if i in rejected_lines]), "not_rejected": missing}


# ----------------------------------------------------------------------------------------------
def run_unit_kani(unit, tier):
    import kani_runner
    return kani_runner.run(unit, tier)


def run_unit(unit, tier):
    if unit["engine"] == "verus":
        return run_unit_verus(unit, tier)
    return run_unit_kani(unit, tier)


def relevant(ob, prop, unit_res, unit):
    """is this failed obligation a failure of property `prop`?"""
    if ob.get("label"):
        ps = props_of_label(ob["label"])
        # a label naming only properties this unit is not registered for (e.g. a clause reused from another unit's
        # vocabulary) must not make the failure disappear: it then counts like an unlabelled obligation
        if ps & set(unit.get("serves", [])):
            return prop in ps
    # unlabelled / pre.* obligations: panic-freedom & helper preconditions -> every property the function serves
    fp = unit_res.get("fn_props", {}).get(ob.get("fn"), [])
    if not fp:
        return prop in unit.get("serves", [])
    return prop in fp


def replay_main(prop, path):
    """`./check Cxx --replay <file>`: show what the replay file records and reproduce it against the current tree:
    the unit is re-extracted and re-verified and the recorded obligation must be rejected again; a recorded concrete
    input (replay search / bounded stand-in) is re-run on the real code.  exit 1 = reproduced, 0 = no longer fails,
    2 = cannot tell."""
    rec = json.load(open(path))
    print("replay of %s: property=%s unit=%s" % (path, rec.get("property"), rec.get("unit")))
    print("  failed obligation: %s" % rec.get("failed_obligation"))
    print("  where: %s   source text: %s" % (rec.get("where"), rec.get("source_text")))
    print("  verifier: %s - %s" % (rec.get("verifier"), rec.get("verifier_message")))
    if rec.get("concrete_input"):
        print("  concrete input on the real code: %s" % rec["concrete_input"])
        print("  obtained with: %s" % rec.get("replay_cmd"))
    import replay as replay_mod
    uname = rec.get("unit", "")
    if uname.endswith("_bounded"):
        b = replay_mod.bounded(uname[:-len("_bounded")])
        print("  re-run of the bounded stand-in: %s%s" % (b["outcome"], (" :: " + b["input"]) if b["input"] else ""))
        if b["kind"] == "state":
            print("VIOLATION property=%s replay=%s" % (prop, os.path.abspath(path)))
        sys.exit(1 if b["kind"] == "state" else 0 if b["kind"] is None and b["sequences"] else 2)
    units = [u for u in load_units()["units"] if u["name"] == uname]
    if not units:
        print("  unit %s is not registered" % uname)
        sys.exit(2)
    r = run_unit(units[0], "quick")
    ids = [ob["id"] for ob in r["failed"]] + [ob["id"] for ob in r.get("failed_findings_variant", [])]
    if rec.get("failed_obligation") in ids:
        print("  reproduced: the verifier rejects this obligation again on the current tree")
        if uname in replay_mod.SEARCHES and not os.environ.get("VERIF_NO_REPLAY"):
            sr = replay_mod._run(*replay_mod.SEARCHES[uname])
            print("  replay search on the real code: %s%s" % (sr["outcome"], (" :: " + sr["found"]) if sr["found"] else ""))
        print("VIOLATION property=%s replay=%s%s" % (prop, os.path.abspath(path), "" if rec.get("concrete_input") else " no-failing-input-found"))
        sys.exit(1)
    if r["undecided"]:
        print("  cannot tell: %s" % r["undecided"][0][:300])
        sys.exit(2)
    print("  not reproduced: the obligation is discharged on the current tree")
    sys.exit(0)


def private_build_dir(prop, tier):
    """Every check run works in its own build directory (build/<property>-<tier>), so that registered commands can be run
    side by side: two checks that share a unit would otherwise rewrite each other's generated files while a verifier reads
    them.  (VERIF_BUILD overrides the location; the evaluation tools use it.)"""
    global BUILD
    if "VERIF_BUILD" not in os.environ:
        BUILD = os.path.join(VERIF, "build", "%s-%s" % (prop, tier))
        os.environ["VERIF_BUILD"] = BUILD
    os.makedirs(BUILD, exist_ok=True)


def main():
    args = sys.argv[1:]
    prop = args[0]
    if "--replay" in args:
        private_build_dir(prop, "replay")
        return replay_main(prop, args[args.index("--replay") + 1])
    tier = os.environ.get("VERIF_TIER", "quick")
    if "--tier" in args:
        tier = args[args.index("--tier") + 1]
    private_build_dir(prop, tier)
    # depth of the wt_client replay search (tools/replay.py): one operation less in the quick tier
    os.environ.setdefault("VERIF_WT_DEPTH", "4" if tier == "quick" else "5")
    seed = int(os.environ.get("VERIF_SEED", "0") or 0)
    t0 = time.time()
    units = [u for u in load_units()["units"] if prop in u.get("serves", [])]
    # a finding is identified by its failed obligation(s); it is reported under every property whose check meets it
    known = load_known()["findings"]
    os.makedirs(EVID, exist_ok=True)
    evid_path = os.path.join(EVID, prop + ".json")
    if os.path.exists(evid_path):
        os.remove(evid_path)
    if not units:
        print("no unit serves %s" % prop)
        sys.exit(2)
    results = []
    with cf.ThreadPoolExecutor(max_workers=4) as ex:
        futs = [ex.submit(run_unit, u, tier) for u in units]
        for f in futs:
            results.append(f.result())
    undecided, violations, knowns = [], [], []
    open_known = [x for x in known if x.get("status", "open") == "open"]
    frame_notes = []
    # source pins: a statement outside every function under contract whose exact shape the contracts assume (e.g. the order
    # in which the chain listeners are registered).  If the shape is gone the check is undecided.
    for pin in load_units().get("source_pins", []):
        if prop not in pin["props"]:
            continue
        try:
            txt = extract.mask(open(os.path.join(extract.REPO, pin["file"]), encoding="utf-8").read(), literals=False)
        except OSError:
            txt = ""
        if "fn" in pin:
            # the text of a whole function is pinned by its hash (code outside the verifier's reach whose shape the contracts assume)
            try:
                sf = extract.SourceFile.get(pin["file"])
                if "impl" in pin:
                    it = [x for x in sf.impl_items(sf.find_impl(pin["impl"])) if x.kind == "fn" and x.name == pin["fn"][3:].strip()][0]
                else:
                    it = sf.find(pin["fn"])
                ok = hashlib.sha256(sf.src[it.start:it.end].encode()).hexdigest()[:16] == pin["sha"]
            except Exception:
                ok = False
        else:
            ok = bool(re.search(pin["pattern"], txt))
        if ok:
            frame_notes.append("source pin `%s`: present in %s" % (pin["name"], pin["file"]))
        else:
            undecided.append("source pin lost: %s (%s): %s" % (pin["name"], pin["file"], pin["why"]))
    for scan in load_units().get("frame_scans", []):
        if prop not in scan["props"]:
            continue
        inside, outside = frame_scan(scan, units)
        frame_notes.append("frame scan `%s`: %d site(s), all inside functions under contract" % (scan["name"], inside) if not outside else
                           "frame scan `%s`: site(s) outside the functions under contract: %s" % (scan["name"], "; ".join(outside)))
        for o in outside:
            undecided.append("frame: %s occurs outside the functions under contract (%s): its effect is not covered by any proved contract" % (scan["name"], o))
        if inside == 0:
            undecided.append("frame: %s matches nothing (pattern stale?)" % scan["name"])
    for u, r in zip(units, results):
        for msg in r["undecided"]:
            undecided.append("%s: %s" % (u["name"], msg))
        main_ids = set()
        for ob in r["failed"]:
            main_ids.add(ob["id"])
            if not relevant(ob, prop, r, u):
                continue
            # the main variant already contains every known-finding exclusion: any failure here is new
            violations.append((u, ob))
        for ob in r.get("failed_findings_variant", []):
            if ob["id"] in main_ids or not relevant(ob, prop, r, u):
                continue
            k = [x for x in open_known if ob["id"] in x.get("obligations", [])]
            if k:
                knowns.append((k[0], ob))
            else:
                violations.append((u, ob))
    printed = set()
    for k, ob in knowns:
        if k["id"] in printed:
            continue
        printed.add(k["id"])
        if prop in k.get("properties", [prop]):
            print("KNOWN-FINDING: property=%s %s %s" % (prop, k["id"], k["what"]))
        else:
            # the failing obligation sits in a function that also serves this property, but the finding is not a
            # violation of this property's statement: recorded in the evidence, no KNOWN-FINDING line
            print("note: known finding %s (listed under %s) lies in a function that also serves %s" % (k["id"], ",".join(k.get("properties", [])), prop))
    # ---------------- bounded stand-ins for code no contract can reach (SQL of the client DBM)
    import replay as replay_mod
    bounded_notes = []
    for bname, (bsrc, _m, _t, _p, _f, bprops, bbound, bunits) in replay_mod.BOUNDED.items():
        stale = [m for m in undecided if "stale-transcription" in m and (bsrc + ":") in m]
        if prop not in bprops or not any(u["name"] in bunits for u in units):
            continue
        if not stale and tier != "thorough":
            continue
        if os.environ.get("VERIF_NO_BOUNDED"):
            continue
        b = replay_mod.bounded(bname)
        bounded_notes.append({"name": bname, "bounded": True, "bound": b["bound"], "sequences": b["sequences"], "outcome": b["outcome"], "input": b["input"],
                              "why": "transcription pin stale: the SQL text changed" if stale else "thorough tier: validation of the assumed stub contracts"})
        if b["kind"] == "state" and stale:
            # the SQL changed AND the real store now deviates, on a concrete operation sequence, from the store contract that
            # the proofs of this property assume: reported as a violation found by the BOUNDED stand-in (not by a proof)
            violations.append(({"name": bname + "_bounded"}, {"id": "%s::bounded-store-contract" % bname, "fn": bsrc, "label": None, "where": bsrc, "src": None,
                               "msg": "BOUNDED check: " + b["outcome"], "rendered": b["input"], "bounded_input": b["input"], "bounded_cmd": b["cmd"]}))
            undecided = [m for m in undecided if not ("stale-transcription" in m and (bsrc + ":") in m)]
        elif b["kind"] is not None and not stale:
            undecided.append("bounded validation: the stub contracts of %s do not describe the unchanged real code: %s" % (bname, b["input"]))
        elif stale:
            undecided.append("bounded stand-in for %s: %s (%s); the changed SQL is still undecided" % (bname, b["outcome"], b["input"] or ("%d sequences" % b["sequences"])))
    # ---------------- bounded stand-in for a unit the verifier could not decide
    # A unit that ends undecided (lost anchor, restructured function, construct outside Verus' reach) and has a replay
    # search is checked by that search instead: the REAL code of the tree under test is driven through the search's stated
    # space and compared with the abstract view that the contracts establish on the unchanged tree.  A deviation on a
    # concrete input is a violation (found by the BOUNDED stand-in, labelled so, with the input); no deviation leaves the
    # unit undecided - a bounded pass is never counted as a proof.
    for u, r in zip(units, results):
        if not r["undecided"] or u["name"] not in replay_mod.SEARCHES or os.environ.get("VERIF_NO_STANDIN"):
            continue
        if any(vu.get("name") == u["name"] for vu, _ob in violations):
            continue
        sr = replay_mod._run(*replay_mod.SEARCHES[u["name"]])
        tags = re.search(r"\{(C\d+(?:,C\d+)*)\}", sr["found"] or "")
        concerns = tags.group(1).split(",") if tags else u.get("serves", [])
        bounded_notes.append({"name": "replay search " + u["name"], "bounded": True, "bound": replay_mod.SEARCHES[u["name"]][4], "outcome": sr["outcome"], "input": sr["found"],
                              "why": "stand-in: the unit is undecided (%s)" % r["undecided"][0][:160]})
        if sr["found"] and prop in concerns:
            violations.append((u, {"id": "%s::bounded-stand-in::real-code-deviates-from-the-contracts-abstract-view" % u["name"], "fn": replay_mod.SEARCHES[u["name"]][0], "label": None,
                                   "where": replay_mod.SEARCHES[u["name"]][0], "src": None,
                                   "msg": "BOUNDED stand-in (the unit is undecided for the verifier: %s): %s" % (r["undecided"][0][:200], sr["outcome"]),
                                   "rendered": sr["tail"], "bounded_input": sr["found"], "bounded_cmd": sr["cmd"]}))
        elif sr["found"]:
            undecided.append("%s: bounded stand-in found a deviation that concerns %s, not %s: %s" % (u["name"], ",".join(concerns), prop, sr["found"][:300]))
        else:
            undecided.append("%s: bounded stand-in: %s (%s); a bounded pass is not a proof, the unit stays undecided" % (u["name"], sr["outcome"], replay_mod.SEARCHES[u["name"]][4][:160]))
    # thorough tier: the replay searches are also run as bounded validations of the abstract view the contracts describe
    # against the real code (no obligation needs to have failed)
    if tier == "thorough" and not violations and not os.environ.get("VERIF_NO_BOUNDED"):
        for u in units:
            if u["name"] in replay_mod.SEARCHES:
                sr = replay_mod._run(*replay_mod.SEARCHES[u["name"]])
                bounded_notes.append({"name": "replay search " + u["name"], "bounded": True, "bound": replay_mod.SEARCHES[u["name"]][4], "outcome": sr["outcome"], "input": sr["found"],
                                      "why": "thorough tier: the real code is driven through the enumerated space and compared with the abstract view of the contracts"})
                if sr["found"]:
                    undecided.append("bounded validation: the real %s deviates from the abstract view of the contracts although every obligation is discharged: %s" % (u["name"], sr["found"]))
    replays = []
    if violations:
        os.makedirs(REPLAYS, exist_ok=True)
        for n, (u, ob) in enumerate(violations):
            rp = os.path.join(REPLAYS, "%s-%s-%d.json" % (prop, u["name"], n))
            rec = {"property": prop, "unit": u["name"], "failed_obligation": ob["id"], "function": ob.get("fn"),
                   "label": ob.get("label"), "where": ob.get("where"), "source_text": ob.get("src"),
                   "verifier": "verus", "verifier_message": ob["msg"], "verifier_output": ob.get("rendered"),
                   "concrete_input": None, "replayed_on_real_code": False}
            found = False
            if ob.get("bounded_input"):
                rec.update(verifier="bounded differential check (stand-in, not a proof)", concrete_input=ob["bounded_input"], replayed_on_real_code=True, replay_cmd=ob["bounded_cmd"])
                json.dump(rec, open(rp, "w"), indent=1)
                replays.append((rp, True, ob))
                continue
            try:
                found = replay_mod.search(prop, u, ob, rec)
            except Exception as e:  # replay is best effort and never decides
                rec["replay_error"] = repr(e)
            json.dump(rec, open(rp, "w"), indent=1)
            replays.append((rp, found, ob))
    # ---------------- evidence
    fns = []
    vcs_total = vcs_ok = 0
    smt_ms = 0
    trusted = []
    items = []
    cmds = []
    samples = []
    canaries = {}
    for u, r in zip(units, results):
        smt_ms += r.get("smt_ms", 0)
        cmds += r.get("cmds", [])
        trusted += ["%s: %s" % (u["name"], t) for t in r.get("trusted", [])]
        canaries[u["name"]] = r.get("canary")
        for it in r.get("items", []):
            items.append(dict(it, unit=u["name"]))
        for v in r.get("vcs", []):
            vcs_total += 1
            vcs_ok += 1 if v["ok"] else 0
        for f in r.get("functions", []):
            fp = r.get("fn_props", {}).get(f["fn"], [])
            vc = [v for v in r.get("vcs", []) if v["fn"].endswith(f["fn"])]
            fns.append({"unit": u["name"], "fn": f["fn"], "source": f["source"], "labels": f["labels"], "serves": fp,
                        "verified": bool(vc and all(v["ok"] for v in vc)), "smt_ms": sum(v["ms"] for v in vc), "rlimit": sum(v["rlimit"] for v in vc)})
            for lab in f["labels"]:
                if prop in props_of_label(lab):
                    samples.append("%s::%s::[%s]" % (u["name"], f["fn"], lab))
        for extra in r.get("samples", []):
            samples.append(extra)
    # a known finding's VC counts as not discharged: report honestly
    n_known = len(knowns)
    ev = {
        "property_id": prop, "tier": tier, "seed": seed, "level": "proof",
        "coverage": {
            "obligations": vcs_total, "discharged": vcs_ok,
            "checker_cmd": " ; ".join(cmds) if cmds else "none",
            "trusted_base": sorted(set(trusted)),
            "explanation": "obligations = function-level verification conditions (one SMT query group per exec/proof function, each covering all of "
                           "its requires-at-call-sites, ensures, invariants, overflow/unwrap/index checks) generated from the text extracted from /repo on this run; "
                           "discharged = those the back end accepted. labelled_clauses lists the named contract clauses of this property.",
            "functions_under_contract": fns,
            "frame_scans": frame_notes,
            "bounded_checks": bounded_notes,
            "labelled_clauses": sorted(set(samples)),
            "samples": sorted(set(samples))[:40] or ["(no labelled clause)"],
            "back_end": "Verus 0.2026.09.13 / Z3 (and CBMC via Kani where a unit says engine=kani)",
            "solver_ms": smt_ms,
            "extracted_items": items,
            "vacuity_guards": canaries,
            "known_findings_reported": [k["id"] for k, _ in knowns],
            "undecided": undecided,
            "bounded_harnesses": [b for r in results for b in r.get("bounded", [])],
        },
        "assumptions": sorted(set(a for u in units for a in u.get("assumptions", []))),
        "wall_s": round(time.time() - t0, 2),
        "violations": len(violations),
    }
    with open(evid_path + ".tmp%d" % os.getpid(), "w") as fh:
        json.dump(ev, fh, indent=1)
    os.replace(evid_path + ".tmp%d" % os.getpid(), evid_path)
    print("%s: %d units, %d/%d verification conditions discharged, %d labelled clauses, solver %d ms, wall %.1fs" % (
        prop, len(units), vcs_ok, vcs_total, len(set(samples)), smt_ms, time.time() - t0))
    if violations:
        for rp, found, ob in replays:
            print("failed obligation: %s" % ob["id"])
            print("VIOLATION property=%s replay=%s%s" % (prop, rp, "" if found else " no-failing-input-found"))
        sys.exit(1)
    if undecided:
        for m in undecided:
            print("UNDECIDED: %s" % m[:1200])
        sys.exit(2)
    sys.exit(0)


if __name__ == "__main__":
    # exit 1 is reserved for a violation reported with a VIOLATION line: a crash of the machinery itself (Python's
    # default exit status for an uncaught exception is 1) must never look like one
    try:
        main()
    except SystemExit:
        raise
    except BaseException as e:   # noqa
        import traceback
        traceback.print_exc()
        print("UNDECIDED: tool error in the runner: %s: %s" % (type(e).__name__, str(e)[:300]))
        sys.exit(2)
