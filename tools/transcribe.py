#!/usr/bin/env python3
"""Maintenance helper (never run by a check): (re)computes the `sha=` field of every `//@ transcribes` line in the given
files from /repo's current text.  To be used only after the stub contracts have been re-read against the source."""
import hashlib, os, re, sys
sys.path.insert(0, os.path.dirname(os.path.abspath(__file__)))
import extract
for path in sys.argv[1:]:
    out = []
    for ln in open(path, encoding="utf-8").read().split("\n"):
        s = ln.strip()
        if s.startswith("//@ transcribes "):
            parts = extract.split_opts(s[len("//@ transcribes "):])
            rel, sel = parts[0], parts[1]
            sf = extract.SourceFile.get(rel)
            if re.match(r"impl\b", sel):
                impl = sf.find_impl(sel)
                name = [x for x in parts[2:] if x.startswith("fn ")][0][3:].strip()
                it = [x for x in sf.impl_items(impl) if x.kind == "fn" and x.name == name][0]
            else:
                it = sf.find(sel)
            got = hashlib.sha256(sf.src[it.start:it.end].encode()).hexdigest()[:16]
            keep = [x for x in parts if not x.startswith("sha=")]
            ln = ln[:len(ln) - len(ln.lstrip())] + "//@ transcribes " + " :: ".join(keep + ["sha=" + got])
        out.append(ln)
    open(path, "w", encoding="utf-8").write("\n".join(out))
    print("updated", path)
