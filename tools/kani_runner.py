"""Kani units: a harness crate whose src/lib.rs is regenerated from /repo on every run.
Function contracts proved with proof_for_contract over full symbolic inputs are loop-free and
therefore complete; anything with an unwind bound is reported under `bounded`, never as proved."""
import json
import os
import re
import subprocess
import time

import extract

VERIF = extract.VERIF


def run(unit, tier):
    res = {"unit": unit["name"], "engine": "kani", "undecided": [], "failed": [], "functions": [], "vcs": [],
           "items": [], "trusted": [], "cmds": [], "smt_ms": 0, "wall": 0.0, "canary": {}, "fn_props": {}, "bounded": [], "samples": []}
    crate = os.path.join(VERIF, unit["crate_dir"])
    if os.environ.get("VERIF_BUILD"):
        # every check run works on its own copy of the harness crate (see runner.private_build_dir)
        import shutil
        side = os.path.join(os.environ["VERIF_BUILD"], "kani-" + unit["name"])
        shutil.copytree(crate, side, ignore=shutil.ignore_patterns("target"), dirs_exist_ok=True)
        crate = side
    try:
        g = extract.generate(os.path.join(VERIF, unit["template"]))
    except extract.ExtractError as e:
        res["undecided"].append("extraction: %s" % e)
        return res
    os.makedirs(os.path.join(crate, "src"), exist_ok=True)
    with open(os.path.join(crate, "src", "lib.rs"), "w") as f:
        f.write(g.text())
    res["items"] = g.items
    harnesses = [h for h in unit["harnesses"] if tier == "thorough" or not h.get("thorough_only")]
    env = dict(os.environ, CARGO_NET_OFFLINE="true", CARGO_TARGET_DIR=os.path.join(VERIF, ".cache", "kani-" + unit["name"]))
    cmd = ["cargo", "kani", "-Z", "function-contracts"] + unit.get("flags", [])
    for h in harnesses:
        cmd += ["--harness", h["name"]]
    t0 = time.time()
    # the cargo target directory (compiled dependencies, Kani's goto artefacts) is shared between check runs: runs of the
    # same Kani unit from two checks started side by side take turns
    import fcntl
    os.makedirs(os.path.join(VERIF, ".cache"), exist_ok=True)
    lock = open(os.path.join(VERIF, ".cache", "kani-" + unit["name"] + ".lock"), "w")
    fcntl.flock(lock, fcntl.LOCK_EX)
    try:
        r = subprocess.run(cmd, cwd=crate, env=env, capture_output=True, text=True, timeout=unit.get("timeout", 900))
    except subprocess.TimeoutExpired:
        res["undecided"].append("cargo kani timed out")
        return res
    finally:
        fcntl.flock(lock, fcntl.LOCK_UN)
        lock.close()
    res["wall"] = time.time() - t0
    res["cmds"] = ["(cd %s && CARGO_NET_OFFLINE=true %s)" % (unit["crate_dir"], " ".join(cmd))]
    out = r.stdout + "\n" + r.stderr
    # split per harness
    parts = re.split(r"Checking harness ([A-Za-z0-9_:]+)\.\.\.", out)
    per = {}
    for i in range(1, len(parts), 2):
        per[parts[i].split("::")[-1]] = parts[i + 1]
    if not per:
        res["undecided"].append("kani produced no harness result: %s" % out[-1500:])
        return res
    for h in harnesses:
        txt = per.get(h["name"])
        fn = h.get("function", h["name"])
        props = h.get("props", [])
        if txt is None:
            res["undecided"].append("harness %s did not run" % h["name"])
            continue
        ok = "VERIFICATION:- SUCCESSFUL" in txt
        failed = "VERIFICATION:- FAILED" in txt
        checks = len(re.findall(r"^Check \d+:", txt, re.M))
        tm = re.search(r"Verification Time: ([0-9.]+)s", txt)
        ms = int(float(tm.group(1)) * 1000) if tm else 0
        res["smt_ms"] += ms
        unsat_cover = re.findall(r"Status: UNSATISFIABLE", txt)
        kind = h.get("kind", "proof")
        if kind == "must_fail":
            # vacuity guard: an `assert!(false)` behind the same assumptions must be reachable
            res["canary"][h["name"]] = "rejected" if failed else "ACCEPTED"
            if not failed:
                res["undecided"].append("VACUOUS: must-fail harness %s was accepted" % h["name"])
            continue
        if unsat_cover:
            res["undecided"].append("VACUOUS: a kani::cover! in %s is unsatisfiable" % h["name"])
        res["vcs"].append({"fn": fn + " (harness %s, %d CBMC checks)" % (h["name"], checks), "mode": "kani", "ok": ok, "ms": ms, "rlimit": 0})
        lab = h.get("label")
        if h.get("bounded"):
            res["bounded"].append({"harness": h["name"], "bound": h["bounded"], "result": "passed" if ok else "failed"})
        if kind == "contract" or not h.get("bounded"):
            res["functions"].append({"fn": fn, "labels": [lab] if lab else [], "source": h.get("source", "")})
            res["fn_props"][fn] = props
        if lab:
            res["samples"].append("%s::%s::[%s]" % (unit["name"], fn, lab))
        if failed:
            fails = re.findall(r"Check \d+: ([^\n]+)\n\s+- Status: FAILURE\n\s+- Description: \"([^\"]*)\"(?:\n\s+- Location: ([^\n]+))?", txt)
            desc = "; ".join("%s (%s)" % (d, loc) for _n, d, loc in fails[:4])
            ob = {"msg": "kani: " + (desc or "verification failed"), "fn": fn, "label": lab, "where": h.get("source"),
                  "src": None, "rendered": txt[-2500:], "kani_harness": h["name"], "crate": crate, "flags": unit.get("flags", [])}
            ob["id"] = "%s::%s::[%s]" % (unit["name"], fn, lab or h["name"])
            res["failed"].append(ob)
        elif not ok:
            res["undecided"].append("harness %s: no verdict: %s" % (h["name"], txt[-600:]))
    res["trusted"] = ["kani: CBMC 6.11 bit-precise semantics of the extracted function (IEEE-754 floats); Kani's contract instrumentation"]
    return res


def concrete_playback(ob):
    """re-run a failed harness asking CBMC for concrete values; returns the printed unit test (str) or None"""
    env = dict(os.environ, CARGO_NET_OFFLINE="true", CARGO_TARGET_DIR=os.path.join(VERIF, ".cache", "kani-playback"))
    cmd = ["cargo", "kani", "-Z", "function-contracts", "-Z", "concrete-playback", "--concrete-playback=print", "--harness", ob["kani_harness"]] + ob.get("flags", [])
    try:
        r = subprocess.run(cmd, cwd=ob["crate"], env=env, capture_output=True, text=True, timeout=600)
    except subprocess.TimeoutExpired:
        return None
    out = r.stdout + r.stderr
    m = re.search(r"```\n(.*?)```", out, re.S)
    return m.group(1) if m else None
