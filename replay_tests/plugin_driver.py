#!/usr/bin/env python3
"""Replay of finding F8 against the real `watchtower-client` binary (no CLN needed: the plugin protocol is JSON-RPC
over stdin/stdout and main() does not call lightningd at start-up).

usage: plugin_driver.py <path to watchtower-client binary> [reply-kind ...]

reply-kind (what the fake tower answers to POST /add_appointment):
   garbage      200 with a body that is not JSON            -> RequestError::DeserializeError
   wrongshape   200 with JSON of the wrong shape            -> RequestError::DeserializeError
   html500      500 with an HTML error page                 -> RequestError::DeserializeError
   refused      nothing listens on the port                 -> RequestError::ConnectionError (control: becomes pending)
   misbehaving-register  (finding F13) the tower is proven misbehaving (proof on disk); `registertower` is run while it
                does not answer; then it comes back and a revocation arrives: the client must never contact it again
   refused-dup  (finding F9) as `refused`, but the same revocation is delivered twice (CLN replays hooks), then a
                second, different revocation is delivered: both must end up recorded exactly once

For each kind: a tower record is placed in the client's database (what `registertower` would have written), the plugin is
started, the `commitment_revocation` hook is delivered once, and the database is inspected.  Property C05 demands that the
appointment is then recorded as accepted, pending or invalid for that tower.  Prints one line per kind and exits 1 if
any appointment is recorded nowhere.
"""
import http.server, json, os, select, shutil, sqlite3, subprocess, sys, tempfile, threading, time, socket

BIN = sys.argv[1]
KINDS = sys.argv[2:] or ["garbage", "wrongshape", "html500", "refused", "refused-dup", "misbehaving-register"]
TOWER_ID = bytes.fromhex("0279be667ef9dcbbac55a06295ce870b07029bfcdb2dce28d959f2815b16f81798")[:33]
# version 2, one input spending ab..ab:0 with empty scriptSig, one 1000 sat output with empty script
PENALTY = "02000000" + "01" + "ab" * 32 + "00000000" + "00" + "ffffffff" + "01" + "e803000000000000" + "00" + "00000000"
TXID = "cd" * 32


def free_port():
    s = socket.socket(); s.bind(("127.0.0.1", 0)); p = s.getsockname()[1]; s.close(); return p


class Plugin:
    def __init__(self, data_dir):
        env = dict(os.environ, TOWERS_DATA_DIR=data_dir)
        self.p = subprocess.Popen([BIN], stdin=subprocess.PIPE, stdout=subprocess.PIPE, bufsize=0, stderr=(sys.stderr if os.environ.get("F8_DEBUG") else subprocess.DEVNULL), env=env)
        self.n = 0

    def call(self, method, params, timeout=30):
        self.n += 1
        msg = {"jsonrpc": "2.0", "id": self.n, "method": method, "params": params}
        self.p.stdin.write((json.dumps(msg) + "\n\n").encode()); self.p.stdin.flush()
        buf = b""
        t0 = time.time()
        while time.time() - t0 < timeout:
            if not select.select([self.p.stdout], [], [], 0.5)[0]:
                continue
            ch = os.read(self.p.stdout.fileno(), 1)
            if not ch:
                raise RuntimeError("plugin closed stdout (crashed?) while answering %s; got %r" % (method, buf))
            buf += ch
            if buf.endswith(b"\n\n"):
                for part in buf.decode().split("\n\n"):
                    part = part.strip()
                    if not part:
                        continue
                    d = json.loads(part)
                    if d.get("id") == self.n:
                        return d
                buf = b""   # only notifications (logs) so far
        raise RuntimeError("timeout waiting for %s" % method)

    def handshake(self, data_dir):
        self.call("getmanifest", {"allow-deprecated-apis": False})
        opts = {"watchtower-port": 9814, "watchtower-max-retry-time": 2, "watchtower-auto-retry-delay": 3600,
                "dev-watchtower-max-retry-interval": 1}
        conf = {"lightning-dir": data_dir, "rpc-file": "lightning-rpc", "startup": True, "network": "regtest",
                "feature_set": {"init": "", "node": "", "channel": "", "invoice": ""}}
        return self.call("init", {"options": opts, "configuration": conf})

    def stop(self):
        try:
            self.p.stdin.close()
        except Exception:
            pass
        try:
            self.p.wait(timeout=3)
        except Exception:
            self.p.kill(); self.p.wait()


def fake_tower(kind, port):
    class H(http.server.BaseHTTPRequestHandler):
        def log_message(self, *a):
            pass

        def do_POST(self):
            n = int(self.headers.get("content-length", 0)); self.rfile.read(n)
            if kind == "garbage":
                code, body, ct = 200, b"this is not json", "text/plain"
            elif kind == "wrongshape":
                code, body, ct = 200, b'{"hello": [1, 2, 3]}', "application/json"
            else:
                code, body, ct = 500, b"<html><body>Internal Server Error</body></html>", "text/html"
            self.send_response(code); self.send_header("content-type", ct); self.send_header("content-length", str(len(body)))
            self.end_headers(); self.wfile.write(body)
    srv = http.server.HTTPServer(("127.0.0.1", port), H)
    threading.Thread(target=srv.serve_forever, daemon=True).start()
    return srv


def counts(db):
    c = sqlite3.connect(db)
    r = {}
    for t in ("appointment_receipts", "pending_appointments", "invalid_appointments", "appointments", "misbehaving_proofs"):
        r[t] = c.execute("SELECT COUNT(*) FROM %s" % t).fetchone()[0]
    c.close()
    return r


def f13(kind):
    """returns True if the property held"""
    d = tempfile.mkdtemp(prefix="f13_")
    srv = None
    hits = []
    try:
        p = Plugin(d); p.handshake(d); p.stop()
        db = os.path.join(d, "watchtowers_db.sql3")
        port = free_port()
        other = bytes.fromhex("02c6047f9441ed7d6d3045406e95c07cd85c778e4b8cef3ca7abac09b95c709ee5")
        loc = bytes.fromhex("11" * 16)
        c = sqlite3.connect(db)
        c.execute("INSERT INTO towers (tower_id, net_addr, available_slots) VALUES (?, ?, ?)", (TOWER_ID, "http://127.0.0.1:%d" % port, 100))
        c.execute("INSERT INTO registration_receipts (tower_id, available_slots, subscription_start, subscription_expiry, signature) VALUES (?, ?, ?, ?, ?)",
                  (TOWER_ID, 100, 1, 1000000, "sig"))
        c.execute("INSERT INTO appointment_receipts (locator, tower_id, start_block, user_signature, tower_signature) VALUES (?, ?, ?, ?, ?)", (loc, TOWER_ID, 5, "usig", "tsig"))
        c.execute("INSERT INTO misbehaving_proofs (tower_id, locator, recovered_id) VALUES (?, ?, ?)", (TOWER_ID, loc, other))
        c.commit(); c.close()
        p = Plugin(d); p.handshake(d)
        tid = TOWER_ID.hex()
        st0 = p.call("listtowers", [])["result"][tid]["status"]
        ans = p.call("registertower", ["%s@127.0.0.1:%d" % (tid, port)])          # nothing listens: connection error
        st1 = p.call("listtowers", [])["result"][tid]["status"]

        class H(http.server.BaseHTTPRequestHandler):
            def log_message(self, *a):
                pass

            def do_POST(self):
                n = int(self.headers.get("content-length", 0)); self.rfile.read(n)
                hits.append(self.path)
                body = b"not json"
                self.send_response(200); self.send_header("content-length", str(len(body))); self.end_headers(); self.wfile.write(body)
        srv = http.server.HTTPServer(("127.0.0.1", port), H)
        threading.Thread(target=srv.serve_forever, daemon=True).start()
        p.call("commitment_revocation", {"commitment_txid": TXID, "penalty_tx": PENALTY, "channel_id": "00" * 32, "commitnum": 1})
        t0 = time.time()
        while time.time() - t0 < 8 and not hits:
            time.sleep(0.2)
        p.stop()
        ok = (st1 == st0 == "misbehaving") and not hits
        print("F13 status after reload=%s, after failed registertower=%s, requests the misbehaving tower then received=%s -> %s" % (
            st0, st1, hits, "not contacted" if ok else "MISBEHAVING TOWER DOWNGRADED AND CONTACTED AGAIN"))
        return ok
    finally:
        if srv:
            srv.shutdown()
        shutil.rmtree(d, ignore_errors=True)


bad = 0
for kind in KINDS:
    if kind == "misbehaving-register":
        if not f13(kind):
            bad += 1
        continue
    d = tempfile.mkdtemp(prefix="f8_")
    srv = None
    try:
        # 1. let the real plugin create its database and key
        p = Plugin(d); p.handshake(d); p.stop()
        db = os.path.join(d, "watchtowers_db.sql3")
        port = free_port()
        c = sqlite3.connect(db)
        c.execute("INSERT INTO towers (tower_id, net_addr, available_slots) VALUES (?, ?, ?)", (TOWER_ID, "http://127.0.0.1:%d" % port, 100))
        c.execute("INSERT INTO registration_receipts (tower_id, available_slots, subscription_start, subscription_expiry, signature) VALUES (?, ?, ?, ?, ?)",
                  (TOWER_ID, 100, 1, 1000000, "sig"))
        c.commit(); c.close()
        if not kind.startswith("refused"):
            srv = fake_tower(kind, port)
        # 2. restart (reload from disk) and deliver one revocation
        p = Plugin(d); p.handshake(d)
        ans = p.call("commitment_revocation", {"commitment_txid": TXID, "penalty_tx": PENALTY, "channel_id": "00" * 32, "commitnum": 1})
        expected = 1
        if kind == "refused-dup":
            expected = 2
            try:
                hook = {"commitment_txid": TXID, "penalty_tx": PENALTY, "channel_id": "00" * 32, "commitnum": 1}
                ans = p.call("commitment_revocation", hook, timeout=10)                       # the duplicate
                ans = p.call("commitment_revocation", dict(hook, commitment_txid="ef" * 32, commitnum=2), timeout=10)   # a new one
            except RuntimeError as e:
                ans = {"result": "NO ANSWER (%s)" % str(e)[:60]}
        time.sleep(0.5)
        p.stop()
        r = counts(db)
        recorded = r["appointment_receipts"] + r["pending_appointments"] + r["invalid_appointments"]
        verdict = "recorded" if recorded == expected else ("LOST (%d of %d recorded)" % (recorded, expected) if recorded < expected else "recorded %d times" % recorded)
        print("F8 reply=%-10s hook answer=%s  receipts=%d pending=%d invalid=%d bodies=%d -> %s" % (
            kind, json.dumps(ans.get("result")), r["appointment_receipts"], r["pending_appointments"], r["invalid_appointments"], r["appointments"], verdict))
        if recorded != expected:
            bad += 1
    finally:
        if srv:
            srv.shutdown()
        shutil.rmtree(d, ignore_errors=True)
sys.exit(1 if bad else 0)
