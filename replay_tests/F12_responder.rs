
    // F12: a block is disconnected (its confirmed trackers go to `reorged_trackers`), and the first block
    // connected afterwards purges the owner (listener order gatekeeper -> watcher -> responder):
    // Responder::handle_reorged_txs then unwraps `load_tracker` of a cascaded-away row.
    #[tokio::test]
    async fn verif_f12_reorged_tracker_of_purged_user() {
        let dbm = Arc::new(Mutex::new(DBM::in_memory().unwrap()));
        let mut chain = Blockchain::default().with_height_and_txs(START_HEIGHT, 10);
        let (responder, _s) =
            init_responder_with_chain_and_dbm(MockedServerQuery::Regular, &mut chain, dbm).await;

        let height = chain.get_block_count();
        let user_id = get_random_user_id();
        let receipt = responder.gatekeeper.add_update_user(user_id).unwrap();

        let dispute_tx = get_random_tx();
        let (uuid, appointment) =
            generate_dummy_appointment_with_user(user_id, Some(&dispute_tx.compute_txid()));
        responder.dbm.lock().unwrap().store_appointment(uuid, &appointment).unwrap();
        responder.add_tracker(uuid, Breach::new(dispute_tx, get_random_tx()), user_id, ConfirmationStatus::ConfirmedIn(height));

        // the confirming block is disconnected
        let tip_header = chain.tip().header;
        responder.gatekeeper.block_disconnected(&tip_header, height);
        responder.block_disconnected(&tip_header, height);
        assert!(responder.reorged_trackers.lock().unwrap().contains(&uuid));

        // the next connected block is the one at which the subscription is outdated
        let purge_height = receipt.subscription_expiry() + EXPIRY_DELTA;
        let block = chain.generate(None);
        let txdata: Vec<_> = block.txdata.iter().enumerate().collect();
        responder.gatekeeper.filtered_block_connected(&block.header, &txdata, purge_height);
        assert!(!responder.has_tracker(uuid), "tracker cascaded away with its owner");
        let r = std::panic::catch_unwind(std::panic::AssertUnwindSafe(|| {
            responder.filtered_block_connected(&block.header, &txdata, purge_height);
        }));
        assert!(r.is_ok(), "Responder::filtered_block_connected panicked on a reorged tracker whose owner was purged");
    }
}
