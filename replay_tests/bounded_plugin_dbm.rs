
// BOUNDED check of the client DBM (watchtower-plugin/src/dbm.rs) against the stub contracts of /verif/prelude/plugin_dbm.rs.
// The SQL of the DBM cannot be brought within the verifier's reach; the units assume the stub contracts.  This module is
// the bounded stand-in: it drives the REAL DBM (SQLite in memory) through every operation sequence of a stated shape and
// compares, after every step, everything the load_* functions report with an executable transcription of the stub
// contracts.  Bound: towers {t1, t2}, locators {l1, l2}, registration expiries {e1 < e2};
//   (a) every sequence of at most 4 operations that starts with a registration,
//   (b) every sequence of 3 operations after both towers have been registered.
// Appended to watchtower-plugin/src/dbm.rs of a scratch copy and run with
//   cargo test --offline -p watchtower-plugin --lib verif_bounded_dbm -- --nocapture
// Prints `BOUNDED-FAIL STATE <sequence> :: <deviation>` for the first deviation of the persisted state, else
// `BOUNDED-FAIL RESULT ..` for the first deviation of a returned Ok/Err only, else `BOUNDED-NONE <count>`.
// It is run (tools/replay.py) only when a transcription pin is stale, i.e. when the text of a transcribed DBM function
// changed, and in the thorough tier as a validation of the assumed stub contracts; it is never counted as a proof.
#[cfg(test)]
mod verif_bounded_dbm {
    use super::*;
    use std::collections::{BTreeMap, BTreeSet};
    use teos_common::receipts::{AppointmentReceipt, RegistrationReceipt};
    use teos_common::test_utils::{generate_random_appointment, get_random_user_id};

    #[derive(Clone, Copy, Debug, PartialEq, Eq)]
    enum Op {
        Register(usize, usize),      // tower, expiry index
        Remove(usize),
        Receipt(usize, usize),       // tower, locator
        Pending(usize, usize),
        DeletePending(usize, usize),
        Invalid(usize, usize),
        Proof(usize, usize),
    }

    // executable transcription of the ghost relations and stub contracts of prelude/plugin_dbm.rs
    #[derive(Clone, Default, Debug, PartialEq)]
    struct Model {
        towers: BTreeMap<usize, u32>,                    // tower -> available_slots
        reg: BTreeMap<(usize, usize), (u32, u32)>,       // (tower, expiry index) -> (slots, start)
        receipts: BTreeSet<(usize, usize)>,
        bodies: BTreeSet<usize>,
        pending: BTreeSet<(usize, usize)>,
        invalid: BTreeSet<(usize, usize)>,
        proofs: BTreeMap<usize, usize>,
    }

    const SLOTS: [u32; 2] = [100, 200];
    const EXPIRY: [u32; 2] = [1000, 2000];
    const START: [u32; 2] = [10, 20];

    impl Model {
        // returns the result the stub contract prescribes (true = Ok), None = outside the stub's precondition
        fn apply(&mut self, op: Op) -> Option<bool> {
            match op {
                Op::Register(t, e) => {
                    if self.reg.contains_key(&(t, e)) {
                        return Some(false);
                    }
                    self.towers.insert(t, SLOTS[e]);
                    self.reg.insert((t, e), (SLOTS[e], START[e]));
                    Some(true)
                }
                Op::Remove(t) => {
                    let existed = self.towers.remove(&t).is_some();
                    self.reg.retain(|k, _| k.0 != t);
                    self.receipts.retain(|k| k.0 != t);
                    self.pending.retain(|k| k.0 != t);
                    self.invalid.retain(|k| k.0 != t);
                    self.proofs.remove(&t);
                    Some(existed)
                }
                Op::Receipt(t, l) => {
                    if self.receipts.contains(&(t, l)) || !self.towers.contains_key(&t) {
                        return Some(false);
                    }
                    self.receipts.insert((t, l));
                    self.towers.insert(t, 7);
                    Some(true)
                }
                Op::Pending(t, l) => {
                    if self.pending.contains(&(t, l)) || !self.towers.contains_key(&t) {
                        return Some(false);
                    }
                    self.pending.insert((t, l));
                    self.bodies.insert(l);
                    Some(true)
                }
                Op::DeletePending(t, l) => {
                    if !self.pending.contains(&(t, l)) {
                        return None;
                    }
                    let other = self.pending.iter().any(|k| k.1 == l && *k != (t, l)) || self.invalid.iter().any(|k| k.1 == l);
                    self.pending.remove(&(t, l));
                    if !other {
                        self.bodies.remove(&l);
                    }
                    Some(true)
                }
                Op::Invalid(t, l) => {
                    if self.invalid.contains(&(t, l)) || !self.towers.contains_key(&t) {
                        return Some(false);
                    }
                    self.invalid.insert((t, l));
                    self.bodies.insert(l);
                    Some(true)
                }
                Op::Proof(t, l) => {
                    if self.receipts.contains(&(t, l)) || self.proofs.contains_key(&t) || !self.towers.contains_key(&t) {
                        return Some(false);
                    }
                    self.receipts.insert((t, l));
                    self.proofs.insert(t, l);
                    Some(true)
                }
            }
        }
    }

    struct World {
        towers: [TowerId; 2],
        appts: [Appointment; 2],
    }

    fn apply_real(dbm: &mut DBM, w: &World, op: Op) -> bool {
        match op {
            Op::Register(t, e) => {
                let r = RegistrationReceipt::with_signature(get_random_user_id(), SLOTS[e], START[e], EXPIRY[e], "sig".to_owned());
                dbm.store_tower_record(w.towers[t], "addr", &r).is_ok()
            }
            Op::Remove(t) => dbm.remove_tower_record(w.towers[t]).is_ok(),
            Op::Receipt(t, l) => {
                let r = AppointmentReceipt::with_signature("usig".to_owned(), 5, "tsig".to_owned());
                dbm.store_appointment_receipt(w.towers[t], w.appts[l].locator, 7, &r).is_ok()
            }
            Op::Pending(t, l) => dbm.store_pending_appointment(w.towers[t], &w.appts[l]).is_ok(),
            Op::DeletePending(t, l) => dbm.delete_pending_appointment(w.towers[t], w.appts[l].locator).is_ok(),
            Op::Invalid(t, l) => dbm.store_invalid_appointment(w.towers[t], &w.appts[l]).is_ok(),
            Op::Proof(t, l) => {
                let r = AppointmentReceipt::with_signature("usig".to_owned(), 5, "tsig".to_owned());
                let p = MisbehaviorProof::new(w.appts[l].locator, r, get_random_user_id());
                dbm.store_misbehaving_proof(w.towers[t], &p).is_ok()
            }
        }
    }

    fn compare(dbm: &DBM, w: &World, m: &Model) -> Result<(), String> {
        let loaded = dbm.load_towers();
        for t in 0..2 {
            let id = w.towers[t];
            match (loaded.get(&id), m.towers.get(&t)) {
                (None, None) => {}
                (Some(s), Some(slots)) => {
                    if s.available_slots != *slots {
                        return Err(format!("tower {t}: available_slots {} expected {}", s.available_slots, slots));
                    }
                    let maxe = (0..2).rev().find(|e| m.reg.contains_key(&(t, *e))).unwrap();
                    if s.subscription_expiry != EXPIRY[maxe] {
                        return Err(format!("tower {t}: subscription_expiry {} expected {}", s.subscription_expiry, EXPIRY[maxe]));
                    }
                    for l in 0..2 {
                        let loc = w.appts[l].locator;
                        if s.pending_appointments.contains(&loc) != m.pending.contains(&(t, l)) {
                            return Err(format!("tower {t}: pending record of locator {l} is {} expected {}", s.pending_appointments.contains(&loc), m.pending.contains(&(t, l))));
                        }
                        if s.invalid_appointments.contains(&loc) != m.invalid.contains(&(t, l)) {
                            return Err(format!("tower {t}: invalid record of locator {l} is {} expected {}", s.invalid_appointments.contains(&loc), m.invalid.contains(&(t, l))));
                        }
                    }
                    let want = if m.proofs.contains_key(&t) {
                        TowerStatus::Misbehaving
                    } else if m.pending.iter().any(|k| k.0 == t) {
                        TowerStatus::TemporaryUnreachable
                    } else {
                        TowerStatus::Reachable
                    };
                    if s.status != want {
                        return Err(format!("tower {t}: reloaded status {:?} expected {:?}", s.status, want));
                    }
                }
                (a, b) => return Err(format!("tower {t}: loaded {} expected {}", a.is_some(), b.is_some())),
            }
            for l in 0..2 {
                let has = dbm.load_appointment_receipt(id, w.appts[l].locator).is_some();
                if has != m.receipts.contains(&(t, l)) {
                    return Err(format!("tower {t}: receipt of locator {l} is {has} expected {}", !has));
                }
            }
            if dbm.exists_misbehaving_proof(id) != m.proofs.contains_key(&t) {
                return Err(format!("tower {t}: misbehaving proof stored is {} expected {}", dbm.exists_misbehaving_proof(id), m.proofs.contains_key(&t)));
            }
        }
        // Bodies: what the properties (C05 "full data stored", C18 "shared bodies kept until the last reference lets go")
        // can observe is that every pending / invalid record still has its body.  Whether an unreferenced body lingers
        // is not observable through them (an orphan clean-up is not a deviation).
        for l in 0..2 {
            let has = dbm.load_appointment(w.appts[l].locator).is_some();
            let referenced = m.pending.iter().any(|k| k.1 == l) || m.invalid.iter().any(|k| k.1 == l);
            if referenced && !has {
                return Err(format!("the body of locator {l} is gone although a pending / invalid record still refers to it"));
            }
        }
        Ok(())
    }

    fn all_ops() -> Vec<Op> {
        let mut v = Vec::new();
        for t in 0..2 {
            for e in 0..2 {
                v.push(Op::Register(t, e));
            }
            v.push(Op::Remove(t));
            for l in 0..2 {
                v.push(Op::Receipt(t, l));
                v.push(Op::Pending(t, l));
                v.push(Op::DeletePending(t, l));
                v.push(Op::Invalid(t, l));
                v.push(Op::Proof(t, l));
            }
        }
        v
    }

    fn run(w: &World, seq: &[Op]) -> Result<(), String> {
        let mut dbm = DBM::in_memory().unwrap();
        let mut m = Model::default();
        for (i, op) in seq.iter().enumerate() {
            let mut m2 = m.clone();
            let want = match m2.apply(*op) {
                Some(r) => r,
                None => return Ok(()), // outside the stub's precondition: not explored further
            };
            let got = apply_real(&mut dbm, w, *op);
            if got != want {
                return Err(format!("RESULT {:?} :: step {} returned {} where the stub contract says {}", &seq[..=i], i + 1, if got { "Ok" } else { "Err" }, if want { "Ok" } else { "Err" }));
            }
            m = m2;
            if let Err(e) = compare(&dbm, w, &m) {
                return Err(format!("STATE {:?} :: after step {}: {}", &seq[..=i], i + 1, e));
            }
        }
        Ok(())
    }

    // a deviation of the persisted STATE ends the search; a deviation of a RESULT only (Ok/Err) is remembered and the
    // search goes on (it is reported only if no state deviation exists)
    fn explore(w: &World, prefix: &mut Vec<Op>, depth: usize, ops: &[Op], count: &mut usize) -> Result<(), String> {
        if depth == 0 {
            *count += 1;
            return match run(w, prefix) {
                Err(e) if e.starts_with("RESULT") => {
                    RESULT_ONLY.with(|r| { if r.borrow().is_none() { *r.borrow_mut() = Some(e); } });
                    Ok(())
                }
                other => other,
            };
        }
        for op in ops {
            prefix.push(*op);
            let r = explore(w, prefix, depth - 1, ops, count);
            prefix.pop();
            r?;
        }
        Ok(())
    }

    thread_local! { static RESULT_ONLY: std::cell::RefCell<Option<String>> = std::cell::RefCell::new(None); }


    // the first level of the enumeration is spread over threads (every sequence uses its own in-memory database)
    fn explore_par(w: &World, prefix: &[Op], depth: usize, ops: &[Op], count: &mut usize) -> Result<(), String> {
        let n_threads = 14usize;
        let results: Vec<(Result<(), String>, usize, Option<String>)> = std::thread::scope(|sc| {
            let handles: Vec<_> = (0..n_threads)
                .map(|t| {
                    sc.spawn(move || {
                        let mut cnt = 0usize;
                        let mut res = Ok(());
                        for (i, op) in ops.iter().enumerate() {
                            if i % n_threads != t {
                                continue;
                            }
                            let mut p = prefix.to_vec();
                            p.push(op.clone());
                            res = explore(w, &mut p, depth - 1, ops, &mut cnt);
                            if res.is_err() {
                                break;
                            }
                        }
                        (res, cnt, RESULT_ONLY.with(|r| r.borrow().clone()))
                    })
                })
                .collect();
            handles.into_iter().map(|h| h.join().unwrap()).collect()
        });
        let mut out = Ok(());
        for (r, c, ro) in results {
            *count += c;
            if out.is_ok() && r.is_err() {
                out = r;
            }
            if let Some(e) = ro {
                RESULT_ONLY.with(|x| {
                    if x.borrow().is_none() {
                        *x.borrow_mut() = Some(e);
                    }
                });
            }
        }
        out
    }

    #[test]
    fn verif_bounded_dbm() {
        let w = World {
            towers: [get_random_user_id(), get_random_user_id()],
            appts: [generate_random_appointment(None), generate_random_appointment(None)],
        };
        let ops = all_ops();
        let mut count = 0usize;
        let mut res = Ok(());
        // (a) sequences of at most 4 operations starting with a registration (a sequence covers its prefixes)
        'a: for t in 0..2 {
            for e in 0..2 {
                let p = vec![Op::Register(t, e)];
                res = explore_par(&w, &p, 3, &ops, &mut count);
                if res.is_err() {
                    break 'a;
                }
            }
        }
        // (b) 3 operations after both towers have been registered
        if res.is_ok() {
            let p = vec![Op::Register(0, 0), Op::Register(1, 0)];
            res = explore_par(&w, &p, 3, &ops, &mut count);
        }
        match (res, RESULT_ONLY.with(|r| r.borrow().clone())) {
            (Err(e), _) => {
                println!("BOUNDED-FAIL {}", e);
                panic!("the real DBM deviates from the stub contracts");
            }
            (Ok(()), Some(e)) => {
                println!("BOUNDED-FAIL {}", e);
                panic!("the real DBM deviates from the stub contracts (result only)");
            }
            (Ok(()), None) => println!("BOUNDED-NONE {} operation sequences agree with the stub contracts", count),
        }
    }
}
