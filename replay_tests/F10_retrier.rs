
    // F10: the tower answers 200 with a body that is not the expected JSON (garbage). `Retrier::run` treats the resulting
    // non-connection RequestError as "nothing to do", leaves the locator in its pending set and loops again at once:
    // a request loop without back-off that never returns.
    #[tokio::test(flavor = "multi_thread", worker_threads = 2)]
    async fn verif_f10_garbage_reply_hot_loop() {
        let (_, tower_pk) = cryptography::get_random_keypair();
        let tower_id = TowerId(tower_pk);
        let tmp_path = TempDir::new(&format!("watchtower_{}", get_random_user_id())).unwrap();
        let wt_client = Arc::new(Mutex::new(
            WTClient::new(tmp_path.path().to_path_buf(), unbounded_channel().0).await,
        ));
        let mut server = mockito::Server::new_async().await;
        let receipt = get_random_registration_receipt();
        wt_client
            .lock()
            .unwrap()
            .add_update_tower(tower_id, &server.url(), &receipt)
            .unwrap();
        let api_mock = server
            .mock("POST", Endpoint::AddAppointment.path().as_str())
            .with_status(200)
            .with_header("content-type", "text/plain")
            .with_body("this is not json")
            .expect_at_least(1)
            .create_async()
            .await;
        let appointment = generate_random_appointment(None);
        wt_client
            .lock()
            .unwrap()
            .add_pending_appointment(tower_id, &appointment);
        let retrier = Arc::new(Retrier::new(
            wt_client.clone(),
            tower_id,
            HashSet::from([appointment.locator]),
        ));
        let r2 = retrier.clone();
        let handle = tokio::spawn(async move { r2.run().await.is_ok() });
        let finished = tokio::time::timeout(std::time::Duration::from_secs(5), handle).await;
        assert!(finished.is_ok(), "Retrier::run did not return within 5 s against a tower that answers garbage (request loop without back-off)");
        let _ = api_mock;
    }
}
