
// Replay of finding F4 (property C19).  Appended to teos/src/tx_index.rs; run with
//   cargo test --offline -p teos --lib verif_replay_f4
// C19: "after any sequence of connections and disconnections the look-ups contain exactly the transactions of the most
// recent N blocks of the active chain".  After one disconnection the index holds N-1 blocks: the transactions of the block
// that is now the N-th most recent one of the active chain (it was evicted when the disconnected block came in) are missing.
#[cfg(test)]
mod verif_replay_f4 {
    use super::*;
    use crate::test_utils::{get_last_n_blocks, Blockchain};
    use bitcoin::Block;
    use std::ops::Deref;
    use teos_common::appointment::Locator;

    #[tokio::test]
    async fn verif_f4_window_is_short_after_a_disconnection() {
        let n = 6;
        let height = 20;
        let mut chain = Blockchain::default().with_height_and_txs(height, 10);
        let mut cache: TxIndex<Locator, Transaction> = TxIndex::new(&get_last_n_blocks(&mut chain, n).await, height as u32);
        assert_eq!(cache.blocks().len(), n);

        // the tip is disconnected (reorg); the active chain now ends at height - 1
        let tip = chain.at_height(height).deref().header;
        cache.remove_disconnected_block(&tip.block_hash());

        // the N most recent blocks of the active chain are height-6 ..= height-1; the oldest of them is not covered
        let oldest: Block = chain.blocks[height - n].clone();
        let tx = oldest.txdata.last().unwrap();
        let locator = Locator::new(tx.txid());
        assert!(cache.blocks().len() == n, "F4: the index holds {} blocks instead of {}", cache.blocks().len(), n);
        assert!(cache.contains_key(&locator), "F4: a transaction of the {}-th most recent block of the active chain is not found", n);
    }
}
