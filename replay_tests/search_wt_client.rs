// Replay search for the client's tower store (properties C05, C14, C18; used by tools/replay.py after a wt_client
// obligation has been rejected, and as a validation in the thorough tier; never part of the deciding step).  Appended to
// watchtower-plugin/src/wt_client.rs of a scratch copy of the working tree and run with
//   cargo test --offline -p watchtower-plugin --lib verif_replay_search_wt -- --nocapture
// It drives the REAL WTClient over the REAL client DBM (SQLite in memory) through every operation sequence of a stated
// shape and compares, after every step, results, memory and database with the abstract view the contracts describe:
//   the in-memory summary of every tower mirrors its database record (address, slots, subscription, pending and invalid
//   locators, misbehaving flag <=> stored proof); an operation on one tower leaves every record of the other tower as it
//   was; a recorded appointment (receipt, pending or invalid) stays recorded until its tower is abandoned; a pending or
//   invalid appointment keeps its body; abandoning a tower deletes exactly that tower's records; what `load_towers` would
//   reload equals the summaries (with the status derived from the stored data); a renewal is accepted only with a later
//   expiry and more slots.
// Bound: towers {t0, t1}, locators {l0, l1}, three registration receipts; a registration of t0 followed by every sequence
// of 4 operations out of 24.  Operations outside a contract's precondition (a second receipt / pending / invalid row for
// the same appointment, removing a pending row that does not exist, flagging twice, changing the status of a flagged
// tower) are skipped: the callers under contract never issue them.
// Prints `REPLAY-FAIL <sequence> :: <deviation>` for the first deviation, `REPLAY-NONE ...` otherwise.
#[cfg(test)]
mod verif_replay_search_wt {
    use super::*;
    use std::collections::{BTreeMap, BTreeSet};
    use teos_common::test_utils::{generate_random_appointment, get_random_user_id};

    #[derive(Clone, Copy, Debug, PartialEq, Eq)]
    enum Op {
        Reg(usize, usize), // tower, receipt index
        Receipt(usize, usize),
        Pending(usize, usize),
        Unpend(usize, usize),
        Invalid(usize, usize),
        Flag(usize, usize),
        Status(usize, usize), // tower, index into STATUSES
        Remove(usize),
    }

    // (slots, start, expiry) of the registration receipts, and the address registered with each
    const REG: [(u32, u32, u32); 3] = [(10, 1, 100), (20, 2, 200), (15, 3, 150)];
    const ADDR: [&str; 3] = ["tower0.onion:9814", "tower1:9814", "tower2:9814"];
    const STATUSES: [TowerStatus; 3] = [TowerStatus::TemporaryUnreachable, TowerStatus::Unreachable, TowerStatus::Reachable];
    const RECEIPT_SLOTS: u32 = 7;

    #[derive(Clone, Debug, PartialEq)]
    struct MT {
        addr: usize,
        avail: u32,
        start: u32,
        expiry: u32,
        status: TowerStatus,
        pending: BTreeSet<usize>,
        invalid: BTreeSet<usize>,
        receipts: BTreeSet<usize>,
        proof: Option<usize>,
    }

    #[derive(Clone, Debug, Default)]
    struct Model {
        towers: BTreeMap<usize, MT>,
        bodies: BTreeSet<usize>,
    }

    #[derive(Debug, PartialEq)]
    enum Out {
        Skipped,
        None,
        Reg(Result<(), &'static str>),
        Remove(bool),
    }

    impl Model {
        fn apply(&mut self, op: Op) -> Out {
            match op {
                Op::Reg(t, k) => {
                    let (slots, start, expiry) = REG[k];
                    if let Some(m) = self.towers.get_mut(&t) {
                        if expiry <= m.expiry {
                            return Out::Reg(Err("Expiry"));
                        }
                        if slots <= m.avail {
                            return Out::Reg(Err("Slots"));
                        }
                        m.addr = k;
                        m.avail = slots;
                        m.start = start;
                        m.expiry = expiry;
                    } else {
                        self.towers.insert(t, MT { addr: k, avail: slots, start, expiry, status: TowerStatus::Reachable, pending: BTreeSet::new(), invalid: BTreeSet::new(), receipts: BTreeSet::new(), proof: None });
                    }
                    Out::Reg(Ok(()))
                }
                Op::Receipt(t, l) => {
                    if let Some(m) = self.towers.get_mut(&t) {
                        if m.receipts.contains(&l) {
                            return Out::Skipped;
                        }
                        m.receipts.insert(l);
                        m.avail = RECEIPT_SLOTS;
                    }
                    Out::None
                }
                Op::Pending(t, l) => {
                    if let Some(m) = self.towers.get_mut(&t) {
                        if m.pending.contains(&l) {
                            return Out::Skipped;
                        }
                        m.pending.insert(l);
                        self.bodies.insert(l);
                    }
                    Out::None
                }
                Op::Unpend(t, l) => {
                    if let Some(m) = self.towers.get_mut(&t) {
                        if !m.pending.contains(&l) {
                            return Out::Skipped;
                        }
                        m.pending.remove(&l);
                        let referenced = self.towers.values().any(|x| x.pending.contains(&l) || x.invalid.contains(&l));
                        if !referenced {
                            self.bodies.remove(&l);
                        }
                    }
                    Out::None
                }
                Op::Invalid(t, l) => {
                    if let Some(m) = self.towers.get_mut(&t) {
                        if m.invalid.contains(&l) {
                            return Out::Skipped;
                        }
                        m.invalid.insert(l);
                        self.bodies.insert(l);
                    }
                    Out::None
                }
                Op::Flag(t, l) => {
                    if let Some(m) = self.towers.get_mut(&t) {
                        if m.receipts.contains(&l) || m.proof.is_some() {
                            return Out::Skipped;
                        }
                        m.receipts.insert(l);
                        m.proof = Some(l);
                        m.status = TowerStatus::Misbehaving;
                    }
                    Out::None
                }
                Op::Status(t, s) => {
                    if let Some(m) = self.towers.get_mut(&t) {
                        if m.proof.is_some() {
                            return Out::Skipped;
                        }
                        m.status = STATUSES[s];
                    }
                    Out::None
                }
                Op::Remove(t) => Out::Remove(self.towers.remove(&t).is_some()),
            }
        }
    }

    struct World {
        towers: [TowerId; 2],
        appts: [Appointment; 2],
        user: UserId,
    }

    impl World {
        fn loc(&self, l: &Locator) -> usize {
            self.appts.iter().position(|a| a.locator == *l).unwrap()
        }
    }

    fn apply_real(wt: &mut WTClient, w: &World, op: Op) -> Out {
        match op {
            Op::Reg(t, k) => {
                let r = RegistrationReceipt::with_signature(w.user, REG[k].0, REG[k].1, REG[k].2, format!("regsig{k}"));
                Out::Reg(wt.add_update_tower(w.towers[t], ADDR[k], &r).map_err(|e| if e == SubscriptionError::Expiry { "Expiry" } else { "Slots" }))
            }
            Op::Receipt(t, l) => {
                let r = AppointmentReceipt::with_signature("usig".to_owned(), 5, "tsig".to_owned());
                wt.add_appointment_receipt(w.towers[t], w.appts[l].locator, RECEIPT_SLOTS, &r);
                Out::None
            }
            Op::Pending(t, l) => {
                wt.add_pending_appointment(w.towers[t], &w.appts[l]);
                Out::None
            }
            Op::Unpend(t, l) => {
                wt.remove_pending_appointment(w.towers[t], w.appts[l].locator);
                Out::None
            }
            Op::Invalid(t, l) => {
                wt.add_invalid_appointment(w.towers[t], &w.appts[l]);
                Out::None
            }
            Op::Flag(t, l) => {
                let r = AppointmentReceipt::with_signature("usig".to_owned(), 5, "wrongsig".to_owned());
                wt.flag_misbehaving_tower(w.towers[t], MisbehaviorProof::new(w.appts[l].locator, r, get_random_user_id()));
                Out::None
            }
            Op::Status(t, s) => {
                wt.set_tower_status(w.towers[t], STATUSES[s]);
                Out::None
            }
            Op::Remove(t) => Out::Remove(wt.remove_tower(w.towers[t]).is_ok()),
        }
    }

    fn compare(wt: &WTClient, w: &World, m: &Model) -> Result<(), String> {
        if wt.towers.len() != m.towers.len() {
            return Err(format!("{{C18}} {} towers in memory, expected {}", wt.towers.len(), m.towers.len()));
        }
        let reloaded = wt.dbm.load_towers();
        if reloaded.len() != m.towers.len() {
            return Err(format!("{{C18}} a reload would find {} towers, expected {}", reloaded.len(), m.towers.len()));
        }
        for t in 0..2 {
            let id = w.towers[t];
            let mem = wt.towers.get(&id);
            let rec = wt.dbm.load_tower_record(id);
            let e = match m.towers.get(&t) {
                None => {
                    if mem.is_some() || rec.is_some() || reloaded.contains_key(&id) {
                        return Err(format!("{{C18}} tower {t} is gone but still known (memory {}, database {})", mem.is_some(), rec.is_some()));
                    }
                    for l in 0..2 {
                        if wt.dbm.load_appointment_receipt(id, w.appts[l].locator).is_some() || wt.has_appointment(id, w.appts[l].locator) {
                            return Err(format!("{{C18}} tower {t} is gone but a record of its appointment {l} is left"));
                        }
                    }
                    continue;
                }
                Some(e) => e,
            };
            let (mem, rec) = match (mem, rec) {
                (Some(a), Some(b)) => (a, b),
                (a, b) => return Err(format!("{{C05,C18}} tower {t}: in memory {}, in the database {}", a.is_some(), b.is_some())),
            };
            let set = |s: &HashSet<Locator>| -> BTreeSet<usize> { s.iter().map(|l| w.loc(l)).collect() };
            let got = (mem.net_addr.net_addr().to_owned(), mem.available_slots, mem.subscription_start, mem.subscription_expiry, mem.status, set(&mem.pending_appointments), set(&mem.invalid_appointments));
            let want = (ADDR[e.addr].to_owned(), e.avail, e.start, e.expiry, e.status, e.pending.clone(), e.invalid.clone());
            if got != want {
                return Err(format!("{{C05,C14,C18}} tower {t} in memory: {:?}, expected {:?}", got, want));
            }
            let derived = if e.proof.is_some() {
                TowerStatus::Misbehaving
            } else if !e.pending.is_empty() {
                TowerStatus::TemporaryUnreachable
            } else {
                TowerStatus::Reachable
            };
            let vset = |v: &Vec<Appointment>| -> BTreeSet<usize> { v.iter().map(|a| w.loc(&a.locator)).collect() };
            let bodies_intact = rec.pending_appointments.iter().chain(rec.invalid_appointments.iter()).all(|a| *a == w.appts[w.loc(&a.locator)]);
            let got = (rec.net_addr.clone(), rec.available_slots, rec.subscription_start, rec.subscription_expiry, rec.status, vset(&rec.pending_appointments), vset(&rec.invalid_appointments),
                rec.appointments.keys().map(|l| w.loc(l)).collect::<BTreeSet<usize>>(), rec.misbehaving_proof.as_ref().map(|p| w.loc(&p.locator)));
            let want = (ADDR[e.addr].to_owned(), e.avail, e.start, e.expiry, derived, e.pending.clone(), e.invalid.clone(), e.receipts.clone(), e.proof);
            if got != want {
                return Err(format!("{{C05,C14,C18}} tower {t} in the database: {:?}, expected {:?}", got, want));
            }
            if rec.pending_appointments.len() != e.pending.len() || rec.invalid_appointments.len() != e.invalid.len() || !bodies_intact {
                return Err(format!("{{C05,C18}} tower {t}: a pending or invalid appointment lost its body or reads back altered"));
            }
            let rl = &reloaded[&id];
            let got = (rl.net_addr.net_addr().to_owned(), rl.available_slots, rl.subscription_start, rl.subscription_expiry, rl.status, set(&rl.pending_appointments), set(&rl.invalid_appointments));
            let want = (ADDR[e.addr].to_owned(), e.avail, e.start, e.expiry, derived, e.pending.clone(), e.invalid.clone());
            if got != want {
                return Err(format!("{{C18}} tower {t} as a reload would see it: {:?}, expected {:?}", got, want));
            }
            if (e.status == TowerStatus::Misbehaving) != e.proof.is_some() {
                return Err(format!("(model) tower {t}: misbehaving flag without proof or the reverse"));
            }
            for l in 0..2 {
                let loc = w.appts[l].locator;
                if wt.get_appointment_receipt(id, loc).is_some() != e.receipts.contains(&l) {
                    return Err(format!("{{C05,C18}} tower {t}: get_appointment_receipt(locator {l}) is {}", wt.get_appointment_receipt(id, loc).is_some()));
                }
                let known = e.receipts.contains(&l) || e.pending.contains(&l) || e.invalid.contains(&l);
                if wt.has_appointment(id, loc) != known {
                    return Err(format!("{{C05}} tower {t}: has_appointment(locator {l}) is {}, expected {}", !known, known));
                }
            }
            match (wt.get_registration_receipt(id), wt.get_tower_status(&id)) {
                (Some(r), Some(s)) if r.subscription_expiry() == e.expiry && r.available_slots() == REG[e.addr].0 && s == e.status => {}
                (r, s) => return Err(format!("{{C18}} tower {t}: registration receipt {:?} / status {:?}, expected expiry {} and {:?}", r.map(|r| r.subscription_expiry()), s, e.expiry, e.status)),
            }
        }
        Ok(())
    }

    fn all_ops() -> Vec<Op> {
        let mut v = vec![Op::Reg(0, 1), Op::Reg(0, 2), Op::Reg(1, 0)];
        for (t, l) in [(0, 0), (0, 1), (1, 0)] {
            v.push(Op::Receipt(t, l));
            v.push(Op::Pending(t, l));
            v.push(Op::Unpend(t, l));
            v.push(Op::Invalid(t, l));
            v.push(Op::Flag(t, l));
        }
        for t in 0..2 {
            v.push(Op::Remove(t));
        }
        for s in 0..3 {
            v.push(Op::Status(0, s));
        }
        v.push(Op::Status(1, 0));
        v
    }

    fn run(w: &World, seq: &[Op]) -> Result<(), String> {
        let (tx, _rx) = tokio::sync::mpsc::unbounded_channel();
        let (sk, _) = cryptography::get_random_keypair();
        let mut wt = WTClient { dbm: DBM::in_memory().unwrap(), towers: HashMap::new(), unreachable_towers: tx, retriers: HashMap::new(), user_sk: sk, user_id: w.user, proxy: None };
        let mut m = Model::default();
        for (i, op) in seq.iter().enumerate() {
            let mut m2 = m.clone();
            let want = m2.apply(*op);
            if want == Out::Skipped {
                continue;
            }
            let got = apply_real(&mut wt, w, *op);
            m = m2;
            if got != want {
                return Err(format!("{:?} :: {{C18}} step {} returned {:?}, the contracts say {:?}", &seq[..=i], i + 1, got, want));
            }
            if let Err(e) = compare(&wt, w, &m) {
                return Err(format!("{:?} :: after step {}: {}", &seq[..=i], i + 1, e));
            }
        }
        Ok(())
    }

    fn explore(w: &World, prefix: &mut Vec<Op>, depth: usize, ops: &[Op], count: &mut usize) -> Result<(), String> {
        if depth == 0 {
            *count += 1;
            let p = prefix.clone();
            return std::panic::catch_unwind(std::panic::AssertUnwindSafe(|| run(w, &p))).unwrap_or_else(|_| Err(format!("{:?} :: {{C05,C18}} the real code panicked", p)));
        }
        for op in ops {
            prefix.push(*op);
            let r = explore(w, prefix, depth - 1, ops, count);
            prefix.pop();
            r?;
        }
        Ok(())
    }

    #[test]
    fn verif_replay_search_wt() {
        let w = World { towers: [get_random_user_id(), get_random_user_id()], appts: [generate_random_appointment(None), generate_random_appointment(None)], user: get_random_user_id() };
        let ops = all_ops();
        let depth: usize = std::env::var("VERIF_WT_DEPTH").ok().and_then(|d| d.parse().ok()).unwrap_or(5);
        let n_threads = 14usize;
        let results: Vec<(Result<(), String>, usize)> = std::thread::scope(|sc| {
            let (w, ops) = (&w, &ops);
            let handles: Vec<_> = (0..n_threads)
                .map(|t| {
                    sc.spawn(move || {
                        let mut cnt = 0usize;
                        let mut res = Ok(());
                        for (i, op) in ops.iter().enumerate() {
                            if i % n_threads != t {
                                continue;
                            }
                            let mut p = vec![Op::Reg(0, 0), *op];
                            res = explore(w, &mut p, depth - 2, ops, &mut cnt);
                            if res.is_err() {
                                break;
                            }
                        }
                        (res, cnt)
                    })
                })
                .collect();
            handles.into_iter().map(|h| h.join().unwrap()).collect()
        });
        let mut count = 0;
        let mut first = None;
        for (r, c) in results {
            count += c;
            if let (None, Err(e)) = (&first, r) {
                first = Some(e);
            }
        }
        match first {
            Some(e) => {
                println!("REPLAY-FAIL ops(Reg(tower, receipt i): (slots, start, expiry) = [(10,1,100), (20,2,200), (15,3,150)][i]; Receipt / Pending / Unpend / Invalid / Flag(tower, locator); Status(tower, i): [TemporaryUnreachable, Unreachable, Reachable][i]; Remove(tower)) {}", e);
                panic!("replay found a failing sequence");
            }
            None => println!("REPLAY-NONE {} operation sequences (Reg(t0) followed by {} operations out of {}) agree with the abstract view", count, depth - 1, ops.len()),
        }
    }
}
