
// BOUNDED check of the tower DBM (teos/src/dbm.rs) against the stub contracts of /verif/prelude/dbm_tower.rs and
// dbm_tower_trackers.rs.  The SQL cannot be brought within the verifier's reach; the units assume the stub contracts.  This
// module is the bounded stand-in: it drives the REAL DBM (SQLite in memory) through every operation sequence of a stated
// shape and compares, after every step, everything the load_* / exists / count functions report with an executable
// transcription of the stub contracts.
// Bound: users {u1, u2}; appointments a1 = (l1, u1), a2 = (l1, u2), a3 = (l2, u1) in two versions each; tracker statuses
// ConfirmedIn / InMempoolSince / IrrevocablyResolved;
//   (a) every sequence of at most 3 operations on the empty database,
//   (b) every sequence of 3 operations after both users and a1, a2 have been stored.
// Appended to teos/src/dbm.rs of a scratch copy and run with
//   cargo test --offline -p teos --lib verif_bounded_dbm -- --nocapture
// Prints `BOUNDED-FAIL STATE|RESULT <sequence> :: <deviation>` for the first deviation, `BOUNDED-NONE <count>` otherwise.
#[cfg(test)]
mod verif_bounded_dbm {
    use super::*;
    use crate::watcher::Breach;
    use bitcoin::Transaction;
    use crate::test_utils::get_random_tx;
    use std::collections::{BTreeMap, BTreeSet};
    use teos_common::test_utils::get_random_user_id;

    #[derive(Clone, Copy, Debug, PartialEq, Eq)]
    enum St {
        C(u32),
        M(u32),
        IR,
    }

    #[derive(Clone, Debug, PartialEq, Eq)]
    enum Op {
        StoreUser(usize, usize),
        UpdateUser(usize, usize),
        RemoveUsers(Vec<usize>),
        StoreAppt(usize, usize),
        UpdateAppt(usize, usize),
        RemoveAppt(usize),
        RemoveAppts(Vec<usize>, bool), // bool: hand over an updated balance for u1
        StoreTracker(usize, St),
        UpdateTracker(usize, St),
    }

    const INFO: [(u32, u32, u32); 2] = [(10, 100, 200), (20, 110, 300)];
    const OWNER: [usize; 3] = [0, 1, 0];
    const LOC: [usize; 3] = [0, 0, 1];

    // executable transcription of the ghost relations and stub contracts
    #[derive(Clone, Default, Debug, PartialEq)]
    struct Model {
        users: BTreeMap<usize, (u32, u32, u32)>,
        appts: BTreeMap<usize, usize>,          // appointment -> version stored
        trackers: BTreeMap<usize, (u32, bool)>, // appointment -> (height, confirmed)
    }

    fn db_data(s: St) -> Option<(u32, bool)> {
        match s {
            St::C(h) => Some((h, true)),
            St::M(h) => Some((h, false)),
            St::IR => None,
        }
    }

    impl Model {
        // Some(true/false) = the result the stub prescribes for fallible operations, None = infallible operation
        fn apply(&mut self, op: &Op) -> Option<bool> {
            match op {
                Op::StoreUser(u, k) => {
                    if self.users.contains_key(u) {
                        return Some(false);
                    }
                    self.users.insert(*u, INFO[*k]);
                    Some(true)
                }
                Op::UpdateUser(u, k) => {
                    if self.users.contains_key(u) {
                        self.users.insert(*u, INFO[*k]);
                    }
                    None
                }
                Op::RemoveUsers(us) => {
                    for u in us {
                        self.users.remove(u);
                    }
                    self.appts.retain(|a, _| !us.contains(&OWNER[*a]));
                    let appts = self.appts.clone();
                    self.trackers.retain(|a, _| appts.contains_key(a));
                    None
                }
                Op::StoreAppt(a, v) => {
                    if self.appts.contains_key(a) || !self.users.contains_key(&OWNER[*a]) {
                        return Some(false);
                    }
                    self.appts.insert(*a, *v);
                    Some(true)
                }
                Op::UpdateAppt(a, v) => {
                    if !self.appts.contains_key(a) {
                        return Some(false);
                    }
                    self.appts.insert(*a, *v);
                    Some(true)
                }
                Op::RemoveAppt(a) => {
                    self.appts.remove(a);
                    self.trackers.remove(a);
                    None
                }
                Op::RemoveAppts(list, upd) => {
                    for a in list {
                        self.appts.remove(a);
                        self.trackers.remove(a);
                    }
                    if *upd {
                        if let Some(i) = self.users.get_mut(&0) {
                            i.0 = 77;
                        }
                    }
                    None
                }
                Op::StoreTracker(a, s) => match db_data(*s) {
                    None => Some(false),
                    Some(d) => {
                        if self.trackers.contains_key(a) || !self.appts.contains_key(a) {
                            return Some(false);
                        }
                        self.trackers.insert(*a, d);
                        Some(true)
                    }
                },
                Op::UpdateTracker(a, s) => match db_data(*s) {
                    None => Some(false),
                    Some(d) => {
                        if !self.trackers.contains_key(a) {
                            return Some(false);
                        }
                        self.trackers.insert(*a, d);
                        Some(true)
                    }
                },
            }
        }
    }

    struct World {
        users: [UserId; 2],
        locators: [Locator; 2],
        uuids: [UUID; 3],
        versions: [[ExtendedAppointment; 2]; 3],
        txs: [(Transaction, Transaction); 3],
    }

    fn status(s: St) -> ConfirmationStatus {
        match s {
            St::C(h) => ConfirmationStatus::ConfirmedIn(h),
            St::M(h) => ConfirmationStatus::InMempoolSince(h),
            St::IR => ConfirmationStatus::IrrevocablyResolved,
        }
    }

    fn apply_real(dbm: &mut DBM, w: &World, op: &Op) -> Option<bool> {
        match op {
            Op::StoreUser(u, k) => Some(dbm.store_user(w.users[*u], &UserInfo::new(INFO[*k].0, INFO[*k].1, INFO[*k].2)).is_ok()),
            Op::UpdateUser(u, k) => {
                dbm.update_user(w.users[*u], &UserInfo::new(INFO[*k].0, INFO[*k].1, INFO[*k].2));
                None
            }
            Op::RemoveUsers(us) => {
                let v: Vec<UserId> = us.iter().map(|u| w.users[*u]).collect();
                dbm.batch_remove_users(&v);
                None
            }
            Op::StoreAppt(a, v) => Some(dbm.store_appointment(w.uuids[*a], &w.versions[*a][*v]).is_ok()),
            Op::UpdateAppt(a, v) => Some(dbm.update_appointment(w.uuids[*a], &w.versions[*a][*v]).is_ok()),
            Op::RemoveAppt(a) => {
                dbm.remove_appointment(w.uuids[*a]);
                None
            }
            Op::RemoveAppts(list, upd) => {
                let v: Vec<UUID> = list.iter().map(|a| w.uuids[*a]).collect();
                let mut m = HashMap::new();
                if *upd {
                    // only available_slots is taken from this record (the other fields are deliberately different)
                    m.insert(w.users[0], UserInfo::new(77, 1, 2));
                }
                dbm.batch_remove_appointments(&v, &m);
                None
            }
            Op::StoreTracker(a, s) => {
                let t = TransactionTracker::new(Breach::new(w.txs[*a].0.clone(), w.txs[*a].1.clone()), w.users[OWNER[*a]], status(*s));
                Some(dbm.store_tracker(w.uuids[*a], &t).is_ok())
            }
            Op::UpdateTracker(a, s) => Some(dbm.update_tracker_status(w.uuids[*a], &status(*s)).is_ok()),
        }
    }

    fn compare(dbm: &DBM, w: &World, m: &Model) -> Result<(), String> {
        let users = dbm.load_all_users();
        for u in 0..2 {
            let got = users.get(&w.users[u]).map(|i| (i.available_slots, i.subscription_start, i.subscription_expiry));
            if got != m.users.get(&u).cloned() {
                return Err(format!("user {u}: stored {:?} expected {:?}", got, m.users.get(&u)));
            }
        }
        if users.len() != m.users.len() {
            return Err(format!("{} users stored, expected {}", users.len(), m.users.len()));
        }
        for a in 0..3 {
            let id = w.uuids[a];
            let got = dbm.load_appointment(id);
            match (&got, m.appts.get(&a)) {
                (None, None) => {}
                (Some(g), Some(v)) => {
                    let e = &w.versions[a][*v];
                    if g.inner.locator != e.inner.locator || g.inner.encrypted_blob != e.inner.encrypted_blob || g.inner.to_self_delay != e.inner.to_self_delay
                        || g.user_id != e.user_id || g.user_signature != e.user_signature || g.start_block != e.start_block
                    {
                        return Err(format!("appointment {a}: the stored row is not version {v} of it"));
                    }
                    if dbm.get_appointment_length(id) != Some(e.inner.encrypted_blob.len()) {
                        return Err(format!("appointment {a}: get_appointment_length is {:?}", dbm.get_appointment_length(id)));
                    }
                    if dbm.get_appointment_user_and_length(id) != Some((e.user_id, e.inner.encrypted_blob.len())) {
                        return Err(format!("appointment {a}: get_appointment_user_and_length is wrong"));
                    }
                }
                _ => return Err(format!("appointment {a}: stored {} expected {}", got.is_some(), m.appts.contains_key(&a))),
            }
            if dbm.appointment_exists(id) != m.appts.contains_key(&a) {
                return Err(format!("appointment {a}: appointment_exists is {}", dbm.appointment_exists(id)));
            }
            // trackers
            if dbm.tracker_exists(id) != m.trackers.contains_key(&a) {
                return Err(format!("tracker {a}: tracker_exists is {} expected {}", dbm.tracker_exists(id), m.trackers.contains_key(&a)));
            }
            match (dbm.load_tracker(id), m.trackers.get(&a)) {
                (None, None) => {}
                (Some(t), Some((h, c))) => {
                    let want = if *c { ConfirmationStatus::ConfirmedIn(*h) } else { ConfirmationStatus::InMempoolSince(*h) };
                    if t.status != want || t.user_id != w.users[OWNER[a]] || t.dispute_tx != w.txs[a].0 || t.penalty_tx != w.txs[a].1 {
                        return Err(format!("tracker {a}: loaded status {:?} expected {:?} (or another user / transaction)", t.status, want));
                    }
                }
                (g, e) => return Err(format!("tracker {a}: loaded {} expected {}", g.is_some(), e.is_some())),
            }
        }
        let watched = m.appts.keys().filter(|a| !m.trackers.contains_key(a)).count();
        if dbm.get_appointments_count() != watched || dbm.get_trackers_count() != m.trackers.len() {
            return Err(format!("counts ({}, {}) expected ({}, {})", dbm.get_appointments_count(), dbm.get_trackers_count(), watched, m.trackers.len()));
        }
        for l in 0..2 {
            let got: BTreeSet<usize> = dbm.load_uuids(w.locators[l]).iter().map(|u| w.uuids.iter().position(|x| x == u).unwrap()).collect();
            let want: BTreeSet<usize> = m.appts.keys().filter(|a| LOC[**a] == l).cloned().collect();
            if got != want {
                return Err(format!("load_uuids(locator {l}) = {:?} expected {:?}", got, want));
            }
        }
        for u in 0..2 {
            let got: BTreeSet<usize> = dbm.load_user_locators(w.users[u]).iter().map(|l| w.locators.iter().position(|x| x == l).unwrap()).collect();
            let want: BTreeSet<usize> = m.appts.keys().filter(|a| OWNER[**a] == u).map(|a| LOC[*a]).collect();
            if got != want {
                return Err(format!("load_user_locators(user {u}) = {:?} expected {:?}", got, want));
            }
        }
        let got: BTreeSet<usize> = dbm.batch_check_locators_exist(vec![&w.locators[0], &w.locators[1]]).iter().map(|l| w.locators.iter().position(|x| x == l).unwrap()).collect();
        let want: BTreeSet<usize> = m.appts.keys().map(|a| LOC[*a]).collect();
        if got != want {
            return Err(format!("batch_check_locators_exist = {:?} expected {:?}", got, want));
        }
        for (q, f) in [(St::C(5), 0), (St::C(7), 0), (St::M(6), 1)] {
            let got: BTreeSet<usize> = dbm.load_trackers_with_confirmation_status(status(q)).unwrap().iter().map(|u| w.uuids.iter().position(|x| x == u).unwrap()).collect();
            let (qh, _) = db_data(q).unwrap();
            let want: BTreeSet<usize> = m.trackers.iter().filter(|(_, (h, c))| if f == 0 { *c && *h == qh } else { !*c && *h <= qh }).map(|(a, _)| *a).collect();
            if got != want {
                return Err(format!("load_trackers_with_confirmation_status({:?}) = {:?} expected {:?}", q, got, want));
            }
        }
        if dbm.load_trackers_with_confirmation_status(ConfirmationStatus::IrrevocablyResolved).is_ok() {
            return Err("load_trackers_with_confirmation_status(IrrevocablyResolved) is Ok".to_owned());
        }
        // load_appointments / load_trackers (all, and per locator)
        for q in [None, Some(0usize), Some(1usize)] {
            let got: BTreeSet<usize> = dbm.load_appointments(q.map(|l| w.locators[l])).keys().map(|u| w.uuids.iter().position(|x| x == u).unwrap()).collect();
            let want: BTreeSet<usize> = m.appts.keys().filter(|a| !m.trackers.contains_key(a) && q.map_or(true, |l| LOC[**a] == l)).cloned().collect();
            if got != want {
                return Err(format!("load_appointments({:?}) = {:?} expected {:?}", q, got, want));
            }
            for (u, a) in dbm.load_appointments(q.map(|l| w.locators[l])) {
                let i = w.uuids.iter().position(|x| *x == u).unwrap();
                let e = &w.versions[i][m.appts[&i]];
                if a.inner.encrypted_blob != e.inner.encrypted_blob || a.user_id != e.user_id || a.inner.to_self_delay != e.inner.to_self_delay {
                    return Err(format!("load_appointments({:?}): appointment {i} reads back altered", q));
                }
            }
            let lt = dbm.load_trackers(q.map(|l| w.locators[l]));
            let got: BTreeSet<usize> = lt.keys().map(|u| w.uuids.iter().position(|x| x == u).unwrap()).collect();
            let want: BTreeSet<usize> = m.trackers.keys().filter(|a| q.map_or(true, |l| LOC[**a] == l)).cloned().collect();
            if got != want {
                return Err(format!("load_trackers({:?}) = {:?} expected {:?}", q, got, want));
            }
            for (u, t) in lt {
                let i = w.uuids.iter().position(|x| *x == u).unwrap();
                let (h, c) = m.trackers[&i];
                let st = if c { ConfirmationStatus::ConfirmedIn(h) } else { ConfirmationStatus::InMempoolSince(h) };
                if t.status != st || t.user_id != w.users[OWNER[i]] || t.dispute_tx != w.txs[i].0 || t.penalty_tx != w.txs[i].1 {
                    return Err(format!("load_trackers({:?}): tracker {i} reads back altered", q));
                }
            }
        }
        let ps = dbm.load_penalties_summaries();
        let got: BTreeSet<usize> = ps.keys().map(|u| w.uuids.iter().position(|x| x == u).unwrap()).collect();
        let want: BTreeSet<usize> = m.trackers.keys().cloned().collect();
        if got != want {
            return Err(format!("load_penalties_summaries keys {:?} expected {:?}", got, want));
        }
        Ok(())
    }

    fn all_ops() -> Vec<Op> {
        let mut v = Vec::new();
        for u in 0..2 {
            for k in 0..2 {
                v.push(Op::StoreUser(u, k));
            }
            v.push(Op::UpdateUser(u, 1));
        }
        v.push(Op::RemoveUsers(vec![0]));
        v.push(Op::RemoveUsers(vec![1]));
        v.push(Op::RemoveUsers(vec![0, 1]));
        for a in 0..3 {
            v.push(Op::StoreAppt(a, 0));
            v.push(Op::UpdateAppt(a, 1));
            v.push(Op::RemoveAppt(a));
            v.push(Op::StoreTracker(a, St::C(5)));
            v.push(Op::StoreTracker(a, St::M(5)));
            v.push(Op::UpdateTracker(a, St::C(7)));
            v.push(Op::UpdateTracker(a, St::M(3)));
        }
        v.push(Op::StoreAppt(0, 1));
        v.push(Op::StoreTracker(0, St::IR));
        v.push(Op::UpdateTracker(0, St::IR));
        for list in [vec![0], vec![1], vec![0, 1], vec![0, 2], vec![0, 1, 2]] {
            v.push(Op::RemoveAppts(list.clone(), false));
            v.push(Op::RemoveAppts(list, true));
        }
        v
    }

    fn run(w: &World, seq: &[Op]) -> Result<(), String> {
        let mut dbm = DBM::in_memory().unwrap();
        let mut m = Model::default();
        for (i, op) in seq.iter().enumerate() {
            let want = m.apply(op);
            let got = apply_real(&mut dbm, w, op);
            if got != want {
                return Err(format!("RESULT {:?} :: step {} returned {:?} where the stub contract says {:?} (true = Ok)", &seq[..=i], i + 1, got, want));
            }
            if let Err(e) = compare(&dbm, w, &m) {
                return Err(format!("STATE {:?} :: after step {}: {}", &seq[..=i], i + 1, e));
            }
        }
        Ok(())
    }

    thread_local! { static RESULT_ONLY: std::cell::RefCell<Option<String>> = std::cell::RefCell::new(None); }

    fn explore(w: &World, prefix: &mut Vec<Op>, depth: usize, ops: &[Op], count: &mut usize) -> Result<(), String> {
        if depth == 0 {
            *count += 1;
            return match run(w, prefix) {
                Err(e) if e.starts_with("RESULT") => {
                    RESULT_ONLY.with(|r| {
                        if r.borrow().is_none() {
                            *r.borrow_mut() = Some(e);
                        }
                    });
                    Ok(())
                }
                other => other,
            };
        }
        for op in ops {
            prefix.push(op.clone());
            let r = explore(w, prefix, depth - 1, ops, count);
            prefix.pop();
            r?;
        }
        Ok(())
    }


    // the first level of the enumeration is spread over threads (every sequence uses its own in-memory database)
    fn explore_par(w: &World, prefix: &[Op], depth: usize, ops: &[Op], count: &mut usize) -> Result<(), String> {
        let n_threads = 14usize;
        let results: Vec<(Result<(), String>, usize, Option<String>)> = std::thread::scope(|sc| {
            let handles: Vec<_> = (0..n_threads)
                .map(|t| {
                    sc.spawn(move || {
                        let mut cnt = 0usize;
                        let mut res = Ok(());
                        for (i, op) in ops.iter().enumerate() {
                            if i % n_threads != t {
                                continue;
                            }
                            let mut p = prefix.to_vec();
                            p.push(op.clone());
                            res = explore(w, &mut p, depth - 1, ops, &mut cnt);
                            if res.is_err() {
                                break;
                            }
                        }
                        (res, cnt, RESULT_ONLY.with(|r| r.borrow().clone()))
                    })
                })
                .collect();
            handles.into_iter().map(|h| h.join().unwrap()).collect()
        });
        let mut out = Ok(());
        for (r, c, ro) in results {
            *count += c;
            if out.is_ok() && r.is_err() {
                out = r;
            }
            if let Some(e) = ro {
                RESULT_ONLY.with(|x| {
                    if x.borrow().is_none() {
                        *x.borrow_mut() = Some(e);
                    }
                });
            }
        }
        out
    }

    #[test]
    fn verif_bounded_dbm() {
        let users = [get_random_user_id(), get_random_user_id()];
        let locators = [Locator::new(get_random_tx().compute_txid()), Locator::new(get_random_tx().compute_txid())];
        let mk = |a: usize, v: usize| {
            ExtendedAppointment::new(
                Appointment::new(locators[LOC[a]], vec![(a * 2 + v) as u8; if v == 0 { 10 } else { 3000 }], 20 + v as u32),
                users[OWNER[a]],
                format!("sig{a}{v}"),
                40 + v as u32,
            )
        };
        let w = World {
            users,
            locators,
            uuids: [UUID::new(locators[0], users[0]), UUID::new(locators[0], users[1]), UUID::new(locators[1], users[0])],
            versions: [[mk(0, 0), mk(0, 1)], [mk(1, 0), mk(1, 1)], [mk(2, 0), mk(2, 1)]],
            txs: [(get_random_tx(), get_random_tx()), (get_random_tx(), get_random_tx()), (get_random_tx(), get_random_tx())],
        };
        let ops = all_ops();
        let mut count = 0usize;
        // (a) at most 3 operations on the empty database (a sequence covers its prefixes)
        let mut res = explore_par(&w, &[], 3, &ops, &mut count);
        // (b) 3 operations after both users and a1, a2 (which share a locator) exist
        if res.is_ok() {
            let p = vec![Op::StoreUser(0, 0), Op::StoreUser(1, 0), Op::StoreAppt(0, 0), Op::StoreAppt(1, 0)];
            res = explore_par(&w, &p, 3, &ops, &mut count);
        }
        match (res, RESULT_ONLY.with(|r| r.borrow().clone())) {
            (Err(e), _) => {
                println!("BOUNDED-FAIL {}", e);
                panic!("the real DBM deviates from the stub contracts");
            }
            (Ok(()), Some(e)) => {
                println!("BOUNDED-FAIL {}", e);
                panic!("the real DBM deviates from the stub contracts (result only)");
            }
            (Ok(()), None) => println!("BOUNDED-NONE {} operation sequences agree with the stub contracts", count),
        }
    }
}
