
#[cfg(test)]
mod verif_replay_f5 {
    use super::*;
    use teos_common::test_utils::get_random_user_id;

    // a large (but valid: it is a u32 configuration value) subscription duration
    #[test]
    fn verif_f5_new_user_expiry_overflow() {
        let dbm = Arc::new(Mutex::new(DBM::in_memory().unwrap()));
        let gk = Gatekeeper::new(800_000, 10, u32::MAX - 100, 6, dbm);
        let r = gk.add_update_user(get_random_user_id()).unwrap();
        assert_eq!(r.subscription_expiry(), u32::MAX);
    }

    // an expiry saturated by renewals (the renewal path saturates at u32::MAX on purpose)
    #[test]
    fn verif_f5_saturated_expiry_is_not_outdated() {
        let dbm = Arc::new(Mutex::new(DBM::in_memory().unwrap()));
        let gk = Gatekeeper::new(800_000, 1, u32::MAX / 2 + 1, 6, dbm);
        let user = get_random_user_id();
        gk.add_update_user(user).unwrap();
        let r = gk.add_update_user(user).unwrap();
        assert_eq!(r.subscription_expiry(), u32::MAX);
        // the subscription is still running: the user must not be purged
        assert!(gk.get_outdated_users(800_001).is_empty());
    }
}
