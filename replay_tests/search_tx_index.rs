
// Replay search for property C19 (used by tools/replay.py after a tx_index obligation has been rejected; never part of
// the deciding step).  Appended to teos/src/tx_index.rs of a scratch copy of the working tree and run with
//   cargo test --offline -p teos --lib verif_replay_search -- --nocapture
// It drives the REAL TxIndex through every connect/disconnect sequence up to a small length and compares it, after
// every step, with the abstract view the contracts describe (window = the blocks connected and not disconnected or aged
// out, oldest first; true heights; every key of a window block maps to that block; no key of a gone block is
// returned).  The first deviation is printed as `REPLAY-FAIL <sequence> :: <what>`.
// Scope of the search = scope of the contracts: the tip is disconnected first and no block below the window is
// disconnected (assumption A5); the N-d blocks after d disconnections are what the contracts state (finding F4 is not re-reported).
#[cfg(test)]
mod verif_replay_search {
    use super::*;
    use bitcoin::block::{Header, Version};
    use bitcoin::hashes::Hash;
    use bitcoin::{CompactTarget, TxMerkleNode};

    #[derive(Clone)]
    struct MBlock {
        hash: BlockHash,
        keys: Vec<Txid>,
        height: u32,
    }

    fn header(prev: BlockHash, nonce: u32) -> Header {
        Header {
            version: Version::ONE,
            prev_blockhash: prev,
            merkle_root: TxMerkleNode::all_zeros(),
            time: nonce,
            bits: CompactTarget::from_consensus(0),
            nonce,
        }
    }

    fn txid(n: u32) -> Txid {
        let mut b = [0u8; 32];
        b[..4].copy_from_slice(&n.to_be_bytes());
        Txid::from_byte_array(b)
    }

    fn check(idx: &TxIndex<Txid, BlockHash>, window: &[MBlock], gone: &[Txid], n: usize) -> Result<(), String> {
        let got: Vec<BlockHash> = idx.blocks.iter().cloned().collect();
        let want: Vec<BlockHash> = window.iter().map(|b| b.hash).collect();
        if got != want {
            return Err(format!("the window holds {} blocks / other blocks than the {} expected", got.len(), want.len()));
        }
        if got.len() > n {
            return Err(format!("the window holds {} blocks, more than its size {}", got.len(), n));
        }
        let mut total = 0;
        for b in window {
            total += b.keys.len();
            for k in &b.keys {
                match idx.get(k) {
                    Some(v) if *v == b.hash => {}
                    other => return Err(format!("a transaction of the block at height {} maps to {:?}", b.height, other.map(|_| "another block"))),
                }
            }
            match idx.get_height(&b.hash) {
                Some(h) if h as u32 == b.height => {}
                other => return Err(format!("get_height of the block at height {} is {:?}", b.height, other)),
            }
        }
        for k in gone {
            if idx.get(k).is_some() {
                return Err("a transaction of a disconnected or aged-out block is still returned".to_owned());
            }
        }
        if idx.index.len() != total {
            return Err(format!("the index holds {} entries, the window's blocks have {}", idx.index.len(), total));
        }
        Ok(())
    }

    // ops: 0,1,2 = connect a block with that many transactions; 3 = disconnect the tip
    fn run(n: usize, ops: &[u8]) -> Result<(), String> {
        let h1 = 50u32;
        let mut idx: TxIndex<Txid, BlockHash> = TxIndex {
            index: HashMap::new(),
            blocks: VecDeque::with_capacity(n),
            tx_in_block: HashMap::new(),
            // what TxIndex::new sets: the height the newest block will have once the window is full
            tip: h1 + n as u32 - 1,
            size: n,
        };
        let mut window: Vec<MBlock> = Vec::new();
        let mut gone: Vec<Txid> = Vec::new();
        let mut chain_height = h1 - 1;
        let mut prev = BlockHash::all_zeros();
        let mut counter = 0u32;
        for (step, op) in ops.iter().enumerate() {
            if *op < 3 {
                counter += 1;
                let hd = header(prev, counter);
                let keys: Vec<Txid> = (0..*op as u32).map(|i| txid(counter * 10 + i)).collect();
                let map: HashMap<Txid, BlockHash> = keys.iter().map(|k| (*k, hd.block_hash())).collect();
                idx.update(hd, &map);
                chain_height += 1;
                window.push(MBlock { hash: hd.block_hash(), keys, height: chain_height });
                if window.len() > n {
                    let old = window.remove(0);
                    gone.extend(old.keys);
                }
                prev = hd.block_hash();
            } else {
                if window.is_empty() {
                    return Ok(()); // a reorg deeper than the window is outside the contracts' scope (A5): not explored
                }
                let b = window.pop().unwrap();
                idx.remove_disconnected_block(&b.hash);
                gone.extend(b.keys);
                chain_height -= 1;
                prev = window.last().map(|b| b.hash).unwrap_or(BlockHash::all_zeros());
            }
            if let Err(e) = check(&idx, &window, &gone, n) {
                return Err(format!("after step {} of {:?} (window size {}): {{C19}} {}", step + 1, &ops[..=step], n, e));
            }
        }
        Ok(())
    }

    #[test]
    fn verif_replay_search() {
        let max_len = 7;
        for n in [2usize, 3] {
            for len in 1..=max_len {
                let mut ops = vec![0u8; len];
                loop {
                    // the first n operations are connections (bootstrap fills the window)
                    if let Err(e) = std::panic::catch_unwind(|| run(n, &ops)).unwrap_or_else(|_| Err(format!("{:?} (window size {}): {{C11,C19}} the real code panicked", ops, n))) {
                        println!("REPLAY-FAIL ops(0..2 = connect a block with that many txs, 3 = disconnect the tip) {}", e);
                        panic!("replay found a failing sequence");
                    }
                    // next sequence
                    let mut i = 0;
                    loop {
                        if i == len {
                            break;
                        }
                        ops[i] += 1;
                        if ops[i] <= 3 {
                            break;
                        }
                        ops[i] = 0;
                        i += 1;
                    }
                    if i == len {
                        break;
                    }
                }
            }
        }
        println!("REPLAY-NONE every sequence up to length {} over windows of 2 and 3 blocks agrees with the abstract view", max_len);
    }
}
