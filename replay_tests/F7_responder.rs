
    // F7: a penalty that has waited >= 6 blocks in the mempool is rebroadcast; the node answers -27
    // (already in chain: the tower missed the confirming block, e.g. after a forced update).
    // `update_tracker_status(IrrevocablyResolved)` is MissingField and its unwrap aborts block processing.
    #[tokio::test]
    async fn verif_f7_rebroadcast_already_in_chain() {
        let (responder, _s) = init_responder(MockedServerQuery::Error(
            rpc_errors::RPC_VERIFY_ALREADY_IN_CHAIN as i64,
        ))
        .await;
        let height = 100;
        responder.add_random_tracker(ConfirmationStatus::InMempoolSince(height - 6));
        let r = std::panic::catch_unwind(std::panic::AssertUnwindSafe(|| {
            responder.rebroadcast_stale_txs(height)
        }));
        assert!(r.is_ok(), "rebroadcast_stale_txs panicked when the node said the penalty is already in the chain");
    }
}
