
    // F11: the tower replies 200 with a well-formed JSON body whose `signature` is not a decodable zbase32 signature.
    #[tokio::test]
    async fn verif_f11_malformed_signature_reply() {
        let (tower_sk, tower_pk) = cryptography::get_random_keypair();
        let appointment = generate_random_appointment(None);
        let appointment_receipt = get_random_appointment_receipt(tower_sk);
        let mut add_appointment_response =
            get_dummy_add_appointment_response(appointment.locator, &appointment_receipt);
        add_appointment_response.signature = "this is not zbase32 !!".to_owned();

        let mut server = mockito::Server::new_async().await;
        let _api_mock = server
            .mock("POST", Endpoint::AddAppointment.path().as_str())
            .with_status(200)
            .with_header("content-type", "application/json")
            .with_body(json!(add_appointment_response).to_string())
            .create_async()
            .await;

        let r = send_appointment(
            TowerId(tower_pk),
            &NetAddr::new(server.url()),
            &None,
            &appointment,
            appointment_receipt.user_signature(),
        )
        .await;
        assert!(r.is_err(), "a reply with an undecodable signature must be refused, not trusted (and must not crash the client)");
    }
}
