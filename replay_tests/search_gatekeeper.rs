// Replay search for the Gatekeeper (properties C07, C09; used by tools/replay.py after a gatekeeper obligation has been
// rejected, and as a validation in the thorough tier; never part of the deciding step).  Appended to
// teos/src/gatekeeper.rs of a scratch copy of the working tree and run with
//   cargo test --offline -p teos --lib verif_replay_search_gk -- --nocapture
// It drives the REAL Gatekeeper over the REAL DBM (SQLite in memory) through every operation sequence of a stated shape and
// compares, after every step, memory, database and results with the abstract view the contracts describe:
//   slots granted by registrations = available + occupied by stored appointments (ceil(len/2048), at least 1) + forfeited;
//   a submission is accepted iff the difference fits the balance and charges exactly the difference; a refund returns
//   exactly the slots of the deleted appointments; memory == database; a registration at height h starts at h and expires
//   at h + duration, a renewal adds the duration; a user is purged (with its appointments) exactly when the connected
//   height reaches expiry + grace period; a restart reloads the same users.
// Bound: users {u0, u1}, locators {l0, l1}, blob lengths {1, 2048, 2049}, 3 slots per registration, (duration, grace) in
// {(2,1), (2,0), (1,3)}; a registration of u0 followed by every sequence of 4 operations out of 15.  The caller of the Gatekeeper is played the way the Watcher does it
// (the appointment is stored / updated in the database after the Gatekeeper has accepted it); operations whose contract
// precondition does not hold (submission by an unregistered user, refund of a missing row) are skipped, as the Watcher and
// the Responder never issue them.
// Prints `REPLAY-FAIL <sequence> :: <deviation>` for the first deviation, `REPLAY-NONE ...` otherwise.
#[cfg(test)]
mod verif_replay_search_gk {
    use super::*;
    use crate::test_utils::get_random_tx;
    use lightning::chain::Listen;
    use std::collections::{BTreeMap, BTreeSet};
    use teos_common::appointment::Appointment;
    use teos_common::test_utils::get_random_user_id;

    #[derive(Clone, Copy, Debug)]
    struct Cfg {
        slots: u32,
        duration: u32,
        delta: u32,
    }
    // slots per registration / subscription duration / grace period: the usual case, no grace period, grace longer than the duration
    const CONFIGS: [Cfg; 3] = [Cfg { slots: 3, duration: 2, delta: 1 }, Cfg { slots: 3, duration: 2, delta: 0 }, Cfg { slots: 3, duration: 1, delta: 3 }];
    const H0: u32 = 10;
    const SIZES: [usize; 3] = [1, 2048, 2049];

    #[derive(Clone, Debug)]
    enum Op {
        Reg(usize),
        Add(usize, usize, usize), // user, locator, index into SIZES
        Drop(Vec<(usize, usize)>, bool), // (user, locator) list, refund
        Connect,
        Disconnect,
        Restart,
    }

    #[derive(Clone, Debug, PartialEq)]
    struct MU {
        avail: u32,
        start: u32,
        expiry: u32,
        granted: u64,
        forfeited: u64,
    }

    #[derive(Clone, Debug)]
    struct Model {
        c: Cfg,
        height: u32,
        users: BTreeMap<usize, MU>,
        appts: BTreeMap<(usize, usize), usize>, // (user, locator) -> blob length
    }

    fn slots(len: usize) -> u32 {
        std::cmp::max(1, ((len + 2047) / 2048) as u32)
    }

    #[derive(Debug, PartialEq)]
    enum Out {
        Skipped,
        None,
        Reg(Result<(u32, u32, u32), ()>),
        Add(Result<u32, ()>),
    }

    impl Model {
        fn apply(&mut self, op: &Op) -> Out {
            match op {
                Op::Reg(u) => {
                    let h = self.height;
                    let c = self.c;
                    match self.users.get_mut(u) {
                        Some(i) => match i.avail.checked_add(c.slots) {
                            Some(a) => {
                                i.avail = a;
                                i.expiry = i.expiry.checked_add(c.duration).unwrap_or(u32::MAX);
                                i.granted += c.slots as u64;
                                Out::Reg(Ok((i.avail, i.start, i.expiry)))
                            }
                            None => Out::Reg(Err(())),
                        },
                        None => {
                            self.users.insert(*u, MU { avail: c.slots, start: h, expiry: h.saturating_add(c.duration), granted: c.slots as u64, forfeited: 0 });
                            Out::Reg(Ok((c.slots, h, h.saturating_add(c.duration))))
                        }
                    }
                }
                Op::Add(u, l, s) => {
                    let used = self.appts.get(&(*u, *l)).map(|len| slots(*len)).unwrap_or(0) as i64;
                    let i = match self.users.get_mut(u) {
                        Some(i) => i,
                        None => return Out::Skipped,
                    };
                    let diff = slots(SIZES[*s]) as i64 - used;
                    if diff <= i.avail as i64 {
                        i.avail = (i.avail as i64 - diff) as u32;
                        self.appts.insert((*u, *l), SIZES[*s]);
                        Out::Add(Ok(i.avail))
                    } else {
                        Out::Add(Err(()))
                    }
                }
                Op::Drop(list, refund) => {
                    if *refund && !list.iter().all(|k| self.appts.contains_key(k)) {
                        return Out::Skipped;
                    }
                    for k in list {
                        if let Some(len) = self.appts.remove(k) {
                            let i = self.users.get_mut(&k.0).unwrap();
                            if *refund {
                                i.avail += slots(len);
                            } else {
                                i.forfeited += slots(len) as u64;
                            }
                        }
                    }
                    Out::None
                }
                Op::Connect => {
                    self.height += 1;
                    let h = self.height;
                    let delta = self.c.delta;
                    let gone: Vec<usize> = self.users.iter().filter(|(_, i)| h >= i.expiry.saturating_add(delta)).map(|(u, _)| *u).collect();
                    for u in gone {
                        self.users.remove(&u);
                        self.appts.retain(|k, _| k.0 != u);
                    }
                    Out::None
                }
                Op::Disconnect => {
                    // the chain monitor disconnects the block at the height the Gatekeeper knows
                    self.height -= 1;
                    Out::None
                }
                Op::Restart => Out::None,
            }
        }

        fn conserved(&self) -> Result<(), String> {
            for (u, i) in &self.users {
                let occupied: u64 = self.appts.iter().filter(|(k, _)| k.0 == *u).map(|(_, len)| slots(*len) as u64).sum();
                if i.granted != i.avail as u64 + occupied + i.forfeited {
                    return Err(format!("(model) user {u}: granted {} != available {} + occupied {} + forfeited {}", i.granted, i.avail, occupied, i.forfeited));
                }
            }
            Ok(())
        }
    }

    struct World {
        users: [UserId; 2],
        locators: [Locator; 2],
    }

    impl World {
        fn uuid(&self, k: &(usize, usize)) -> UUID {
            UUID::new(self.locators[k.1], self.users[k.0])
        }
        fn appointment(&self, u: usize, l: usize, s: usize) -> ExtendedAppointment {
            ExtendedAppointment::new(Appointment::new(self.locators[l], vec![s as u8 + 1; SIZES[s]], 21), self.users[u], format!("sig{u}{l}{s}"), 40)
        }
    }

    fn header(n: u32) -> bitcoin::block::Header {
        use bitcoin::hashes::Hash;
        bitcoin::block::Header {
            version: bitcoin::block::Version::ONE,
            prev_blockhash: bitcoin::BlockHash::all_zeros(),
            merkle_root: bitcoin::TxMerkleNode::all_zeros(),
            time: n,
            bits: bitcoin::CompactTarget::from_consensus(0),
            nonce: n,
        }
    }

    fn apply_real(gk: &mut Gatekeeper, w: &World, m_before: &Model, op: &Op) -> Out {
        match op {
            Op::Reg(u) => Out::Reg(gk.add_update_user(w.users[*u]).map(|r| (r.available_slots(), r.subscription_start(), r.subscription_expiry())).map_err(|_| ())),
            Op::Add(u, l, s) => {
                if !m_before.users.contains_key(u) {
                    return Out::Skipped;
                }
                let a = w.appointment(*u, *l, *s);
                let id = w.uuid(&(*u, *l));
                let r = gk.add_update_appointment(w.users[*u], id, &a).map_err(|_| ());
                if r.is_ok() {
                    // what Watcher::store_appointment does next
                    let dbm = gk.dbm.lock().unwrap();
                    if dbm.appointment_exists(id) {
                        dbm.update_appointment(id, &a).unwrap();
                    } else {
                        dbm.store_appointment(id, &a).unwrap();
                    }
                }
                Out::Add(r)
            }
            Op::Drop(list, refund) => {
                if *refund && !list.iter().all(|k| m_before.appts.contains_key(k)) {
                    return Out::Skipped;
                }
                gk.delete_appointments(list.iter().map(|k| w.uuid(k)).collect(), *refund);
                Out::None
            }
            Op::Connect => {
                let h = m_before.height + 1;
                gk.filtered_block_connected(&header(h), &[], h);
                Out::None
            }
            Op::Disconnect => {
                gk.block_disconnected(&header(m_before.height), m_before.height);
                Out::None
            }
            Op::Restart => {
                let dbm = gk.dbm.clone();
                *gk = Gatekeeper::new(m_before.height, m_before.c.slots, m_before.c.duration, m_before.c.delta, dbm);
                Out::None
            }
        }
    }

    fn compare(gk: &Gatekeeper, w: &World, m: &Model) -> Result<(), String> {
        m.conserved()?;
        let h = gk.last_known_block_height.load(Ordering::Acquire);
        if h != m.height {
            return Err(format!("{{C09}} the Gatekeeper's height is {h}, the chain's {}", m.height));
        }
        let mem = gk.registered_users.lock().unwrap().clone();
        let db = gk.dbm.lock().unwrap().load_all_users();
        for (what, map) in [("in memory", &mem), ("in the database", &db)] {
            if map.len() != m.users.len() {
                return Err(format!("{{C09}} {} users {what}, expected {}", map.len(), m.users.len()));
            }
            for u in 0..2 {
                let got = map.get(&w.users[u]).map(|i| (i.available_slots, i.subscription_start, i.subscription_expiry));
                let want = m.users.get(&u).map(|i| (i.avail, i.start, i.expiry));
                if got != want {
                    // a wrong balance is a slot-accounting matter (C07), a wrong window or a missing / surviving user a subscription matter (C09)
                    let tag = match (got, want) {
                        (Some(g), Some(w)) if (g.1, g.2) == (w.1, w.2) => "{C07}",
                        (Some(g), Some(w)) if g.0 == w.0 => "{C09}",
                        (Some(_), Some(_)) => "{C07,C09}",
                        _ => "{C09}",
                    };
                    return Err(format!("{tag} user {u} {what}: (available, start, expiry) = {:?}, expected {:?}", got, want));
                }
            }
        }
        for u in 0..2 {
            for l in 0..2 {
                let id = w.uuid(&(u, l));
                let got = gk.dbm.lock().unwrap().get_appointment_length(id);
                let want = m.appts.get(&(u, l)).cloned();
                if got != want {
                    return Err(format!("{{C04,C07}} appointment (user {u}, locator {l}): stored blob length {:?}, expected {:?}", got, want));
                }
            }
            // conservation on the real numbers
            if let Some(i) = m.users.get(&u) {
                let real = mem[&w.users[u]];
                let occupied: u64 = (0..2).filter_map(|l| gk.dbm.lock().unwrap().get_appointment_length(w.uuid(&(u, l)))).map(|len| slots(len) as u64).sum();
                if i.granted != real.available_slots as u64 + occupied + i.forfeited {
                    return Err(format!("{{C07}} user {u}: granted {} != available {} + occupied {} + forfeited {}", i.granted, real.available_slots, occupied, i.forfeited));
                }
            }
            let got = gk.has_subscription_expired(w.users[u]).ok();
            let want = m.users.get(&u).map(|i| (m.height >= i.expiry, i.expiry));
            if got != want {
                return Err(format!("{{C09}} has_subscription_expired(user {u}) = {:?}, expected {:?}", got, want));
            }
            let got: Option<BTreeSet<usize>> = gk.get_user_info(w.users[u]).map(|(_, ls)| ls.iter().map(|x| w.locators.iter().position(|y| y == x).unwrap()).collect());
            let want: Option<BTreeSet<usize>> = m.users.get(&u).map(|_| m.appts.keys().filter(|k| k.0 == u).map(|k| k.1).collect());
            if got != want {
                return Err(format!("{{C07}} get_user_info(user {u}) locators = {:?}, expected {:?}", got, want));
            }
        }
        for q in [m.height, m.height + 1, m.height + 3] {
            let got: BTreeSet<usize> = gk.get_outdated_users(q).iter().map(|x| w.users.iter().position(|y| y == x).unwrap()).collect();
            let want: BTreeSet<usize> = m.users.iter().filter(|(_, i)| q >= i.expiry.saturating_add(m.c.delta)).map(|(u, _)| *u).collect();
            if got != want {
                return Err(format!("{{C09}} get_outdated_users({q}) = {:?}, expected {:?}", got, want));
            }
        }
        Ok(())
    }

    fn all_ops() -> Vec<Op> {
        vec![
            Op::Reg(0),
            Op::Reg(1),
            Op::Add(0, 0, 0),
            Op::Add(0, 0, 1),
            Op::Add(0, 0, 2),
            Op::Add(0, 1, 2),
            Op::Add(1, 0, 0),
            Op::Drop(vec![(0, 0)], false),
            Op::Drop(vec![(0, 0)], true),
            Op::Drop(vec![(0, 0), (0, 1)], true),
            Op::Drop(vec![(0, 0), (1, 0)], true),
            Op::Drop(vec![(0, 0), (0, 1)], false),
            Op::Connect,
            Op::Disconnect,
            Op::Restart,
        ]
    }

    fn run(w: &World, c: Cfg, seq: &[Op]) -> Result<(), String> {
        let dbm = Arc::new(Mutex::new(DBM::in_memory().unwrap()));
        let mut gk = Gatekeeper::new(H0, c.slots, c.duration, c.delta, dbm);
        let mut m = Model { c, height: H0, users: BTreeMap::new(), appts: BTreeMap::new() };
        for (i, op) in seq.iter().enumerate() {
            let before = m.clone();
            let want = m.apply(op);
            let got = apply_real(&mut gk, w, &before, op);
            if got != want {
                let tag = match (op, &got, &want) {
                    (Op::Add(..), _, _) => "{C07}",
                    (Op::Reg(_), Out::Reg(Ok(g)), Out::Reg(Ok(w))) if (g.1, g.2) == (w.1, w.2) => "{C07}",
                    (Op::Reg(_), Out::Reg(Ok(g)), Out::Reg(Ok(w))) if g.0 == w.0 => "{C09}",
                    _ => "{C07,C09}",
                };
                return Err(format!("{:?} with {:?} :: {tag} step {} returned {:?}, the contracts say {:?}", &seq[..=i], c, i + 1, got, want));
            }
            if let Err(e) = compare(&gk, w, &m) {
                return Err(format!("{:?} with {:?} :: after step {}: {}", &seq[..=i], c, i + 1, e));
            }
        }
        Ok(())
    }

    fn explore(w: &World, c: Cfg, prefix: &mut Vec<Op>, depth: usize, ops: &[Op], count: &mut usize) -> Result<(), String> {
        if depth == 0 {
            *count += 1;
            let p = prefix.clone();
            return std::panic::catch_unwind(std::panic::AssertUnwindSafe(|| run(w, c, &p))).unwrap_or_else(|_| Err(format!("{:?} with {:?} :: {{C11}} the real code panicked", p, c)));
        }
        for op in ops {
            prefix.push(op.clone());
            let r = explore(w, c, prefix, depth - 1, ops, count);
            prefix.pop();
            r?;
        }
        Ok(())
    }

    #[test]
    fn verif_replay_search_gk() {
        let w = World { users: [get_random_user_id(), get_random_user_id()], locators: [Locator::new(get_random_tx().compute_txid()), Locator::new(get_random_tx().compute_txid())] };
        let ops = all_ops();
        let depth: usize = std::env::var("VERIF_GK_DEPTH").ok().and_then(|d| d.parse().ok()).unwrap_or(5);
        let n_threads = 14usize;
        let results: Vec<(Result<(), String>, usize)> = std::thread::scope(|sc| {
            let (w, ops) = (&w, &ops);
            let handles: Vec<_> = (0..n_threads)
                .map(|t| {
                    sc.spawn(move || {
                        let mut cnt = 0usize;
                        let mut res = Ok(());
                        // sequences starting with a registration of u0 (nothing happens before the first registration), the
                        // second operation spread over the threads
                        'outer: for c in CONFIGS {
                            for (i, op) in ops.iter().enumerate() {
                                if i % n_threads != t {
                                    continue;
                                }
                                let mut p = vec![Op::Reg(0), op.clone()];
                                res = explore(w, c, &mut p, depth - 2, ops, &mut cnt);
                                if res.is_err() {
                                    break 'outer;
                                }
                            }
                        }
                        (res, cnt)
                    })
                })
                .collect();
            handles.into_iter().map(|h| h.join().unwrap()).collect()
        });
        let mut count = 0;
        let mut first = None;
        for (r, c) in results {
            count += c;
            if let (None, Err(e)) = (&first, r) {
                first = Some(e);
            }
        }
        match first {
            Some(e) => {
                println!("REPLAY-FAIL ops(Reg(user); Add(user, locator, i) submits a blob of [1, 2048, 2049][i] bytes; Drop([(user, locator)..], refund); Connect / Disconnect a block; Restart from the database) {}", e);
                panic!("replay found a failing sequence");
            }
            None => println!("REPLAY-NONE {} operation sequences (Reg(u0) followed by {} operations out of {}) under {} configurations agree with the abstract view", count, depth - 1, ops.len(), CONFIGS.len()),
        }
    }
}
